(* Frame of the service's configuration (C13, C20): only the owner's setTrustedAddress / removeTrustedAddress touch the
   trusted-address table and only pause / unpause touch the pause flag. *)
From Coq Require Import String List NArith Lia Bool.
From Ax Require Import Lib.Bytes Lib.Mvx Lib.SolAbi Lib.Keccak Model.Check Model.Env Model.Gateway Model.TokenManager Model.Its
     Proofs.AListFacts Proofs.GatewayMsgs Proofs.TMFacts Proofs.ItsFacts Proofs.ItsWorld.
Import ListNotations.
Open Scope N_scope.

(* trusted-address table and pause flag are the same in both worlds *)
Definition cfg (w w' : iworld) : Prop := i_trusted (iw_its w') = i_trusted (iw_its w) /\ i_paused (iw_its w') = i_paused (iw_its w).
Lemma cfg_refl w : cfg w w.
Proof. split; reflexivity. Qed.
Lemma cfg_trans a b c : cfg a b -> cfg b c -> cfg a c.
Proof. intros [A1 A2] [B1 B2]. split; congruence. Qed.
Lemma cfg_same_its w w' : iw_its w' = iw_its w -> cfg w w'.
Proof. intros E. unfold cfg. rewrite E. split; reflexivity. Qed.

Section P.
  Variable H : bytes -> bytes.
  Variable verify : bytes -> bytes -> bytes -> bool.

  Lemma deploy_tm_cfg w c token_id ty token operator w' : deploy_tm w c token_id ty token operator = Some w' -> cfg w w'.
  Proof. intro D. apply deploy_tm_spec in D as (_ & _ & t & ev & _ & ->). split; reflexivity. Qed.

  Ltac its_eq :=
    repeat match goal with
    | Hx : call_contract _ _ _ _ _ _ _ _ = Some _ |- _ => apply (call_contract_mono H) in Hx
    | Hx : route_message _ _ _ _ _ _ _ = Some _ |- _ => apply (route_message_its H) in Hx
    | Hx : tm_call _ _ _ _ = Some _ |- _ => apply tm_call_its in Hx
    | Hx : call_tm_deploy_token _ _ _ _ _ _ = Some _ |- _ => apply call_tm_deploy_token_its in Hx
    | Hx : gw_validate _ _ _ _ _ _ _ = Some _ |- _ => apply (gw_validate_its H) in Hx
    | Hx : call_tm_give _ _ _ _ _ = Some _ |- _ => apply call_tm_give_its in Hx; destruct Hx as (Hx & _)
    | Hx : call_tm_take _ _ _ _ _ = Some _ |- _ => apply call_tm_take_its in Hx; destruct Hx as (Hx & _)
    | Hx : set_limits _ _ _ = Some _ |- _ => apply set_limits_its in Hx
    end.

  Lemma process_transfer_cfg w c orig chain id src ph payload w' ev : process_transfer H w c orig chain id src ph payload = Some (w', ev) -> cfg w w'.
  Proof.
    unfold process_transfer. intro R. inv_some R; inversion R; subst; its_eq; split; cbn; congruence.
  Qed.

  Lemma deploy_token_raw_cfg w c ds dest n sy d m e w' ev : deploy_token_raw H w c ds dest n sy d m e = Some (w', ev) -> cfg w w'.
  Proof.
    unfold deploy_token_raw, remote_base. intro R. inv_some R; inversion R; subst.
    - match goal with D : deploy_tm _ _ _ _ _ _ = Some _ |- _ => apply deploy_tm_cfg in D; exact D end.
    - its_eq. split; congruence.
    - its_eq. split; congruence.
  Qed.

  Lemma process_deploy_cfg w c chain id src ph payload w' ev : process_deploy H w c chain id src ph payload = Some (w', ev) -> cfg w w'.
  Proof.
    unfold process_deploy. intro R. inv_some R; inversion R; subst.
    - match goal with D : deploy_tm _ _ _ _ _ _ = Some _ |- _ => apply deploy_tm_cfg in D; exact D end.
    - its_eq. split; congruence.
  Qed.

  Lemma process_link_cfg w c payload w' : process_link w c payload = Some w' -> cfg w w'.
  Proof. unfold process_link. intro R. inv_some R. apply deploy_tm_cfg in R. tauto. Qed.

  Lemma its_execute_cfg w c chain id src payload w' ev : its_execute H w c chain id src payload = Some (w', ev) -> cfg w w'.
  Proof.
    unfold its_execute. intro R. inv_some R.
    - eapply process_transfer_cfg; eauto.
    - eapply process_deploy_cfg; eauto.
    - inversion R; subst. match goal with V : gw_validate _ _ _ _ _ _ _ = Some _, L : process_link _ _ _ = Some _ |- _ =>
        apply gw_validate_its in V; apply process_link_cfg in L; eapply cfg_trans; [split; rewrite V; reflexivity | exact L] end.
  Qed.

  Lemma transmit_its w c t dc da a gt g d w' ev : transmit H w c t dc da a gt g d = Some (w', ev) -> iw_its w' = iw_its w.
  Proof. unfold transmit. intro R. inv_some R. eapply route_message_its; eauto. Qed.

  Lemma remote_raw_cfg w c ds dc dm w' rets ev : remote_raw H w c ds dc dm = Some (w', rets, ev) -> cfg w w'.
  Proof.
    unfold remote_raw. intro R. inv_some R; inversion R; subst.
    - match goal with D : deploy_token_raw _ _ _ _ _ _ _ _ _ _ = Some _ |- _ => apply deploy_token_raw_cfg in D; exact D end.
    - split; reflexivity.
  Qed.

  Lemma register_custom_raw_cfg w c ds tok ty lp w' rets ev : register_custom_raw H w c ds tok ty lp = Some (w', rets, ev) -> cfg w w'.
  Proof. unfold register_custom_raw. intro R. inv_some R. inversion R; subst. match goal with D : deploy_tm _ _ _ _ _ _ = Some _ |- _ => apply deploy_tm_cfg in D; exact D end. Qed.

  
  Ltac same := first [apply cfg_refl | split; reflexivity].

  Theorem istep_config_frame w o :
    match o with
    | ISetTrusted _ _ _ | IRemoveTrusted _ _ | IPause _ _ => True
    | _ => cfg w (fst (istep H verify w o))
    end.
  Proof.
    assert (ITX : forall c f, (forall w1 w2 rets ev, iw_its w1 = iw_its w -> f w1 = Some (w2, rets, ev) -> cfg w1 w2) -> cfg w (fst (itx w c f))).
    { intros c f Hf. unfold itx. destruct (pay_in _ _ _ _) as [l1|]; [|same].
      destruct (f (w_led_ w l1)) as [[[w2 rets] ev]|] eqn:F; [|same]. cbn [fst].
      eapply cfg_trans; [|eapply (Hf (w_led_ w l1)); [reflexivity | exact F]]. split; reflexivity. }
    destruct o; try exact I; cbn [istep]; try (apply ITX; intros w1 w2 rets ev Ei F; unfold norets in F).
    - destruct (gstep H verify (iw_gw w) o) as [g' r]. same.
    - destruct (its_execute H w1 c chain id src payload) as [[w3 ev3]|] eqn:X; inversion F; subst. eapply its_execute_cfg; eauto.
    - destruct (interchain_transfer H w1 c token_id dest_chain dest_addr metadata gas) as [[w3 ev3]|] eqn:X; inversion F; subst.
      unfold interchain_transfer in X. inv_some X. apply transmit_its in X. its_eq. split; congruence.
    - destruct (call_contract_with_token H w1 c token_id dest_chain dest_addr data gas) as [[w3 ev3]|] eqn:X; inversion F; subst.
      unfold call_contract_with_token in X. inv_some X. apply transmit_its in X. its_eq. split; congruence.
    - destruct (register_token_metadata w1 c token) as [[w3 ev3]|] eqn:X; inversion F; subst.
      unfold register_token_metadata in X. inv_some X. inversion X; subst. same.
    - unfold deploy_interchain_token_ep in F. inv_some F; inversion F; subst; try same.
      all: try (match goal with D : deploy_token_raw _ _ _ _ _ _ _ _ _ _ = Some _ |- _ => apply deploy_token_raw_cfg in D; exact D end).
      all: its_eq; split; congruence.
    - destruct (approve_remote H w1 c deployer salt dest_chain dest_minter) as [[w3 ev3]|] eqn:X; inversion F; subst.
      apply approve_remote_spec in X as (_ & _ & ->). same.
    - destruct (revoke_remote H w1 c deployer salt dest_chain) as [[w3 ev3]|] eqn:X; inversion F; subst.
      apply revoke_remote_spec in X. subst. same.
    - unfold deploy_remote_with_minter in F. inv_some F.
      + apply remote_raw_cfg in F. eapply cfg_trans; [|exact F]. same.
      + eapply remote_raw_cfg; eauto.
      + eapply remote_raw_cfg; eauto.
    - unfold register_canonical in F. inv_some F. eapply register_custom_raw_cfg; eauto.
    - unfold deploy_remote_canonical in F. inv_some F. eapply remote_raw_cfg; eauto.
    - unfold register_custom_token in F. inv_some F. eapply register_custom_raw_cfg; eauto.
    - unfold link_token in F. inv_some F. inversion F; subst.
      match goal with Hx : route_message _ _ _ _ _ _ _ = Some _ |- _ => apply route_message_its in Hx; split; rewrite Hx; reflexivity end.
    - destruct (set_flow_limits w1 c ids limits) as [[w3 ev3]|] eqn:X; inversion F; subst.
      unfold set_flow_limits in X. inv_some X. inversion X; subst. its_eq. split; congruence.
    - destruct (its_transfer_operatorship w1 c a) as [[w3 ev3]|] eqn:X; inversion F; subst.
      unfold its_transfer_operatorship in X. inv_some X. inversion X; subst. same.
    - destruct (its_propose_operatorship w1 c a) as [[w3 ev3]|] eqn:X; inversion F; subst.
      unfold its_propose_operatorship in X. inv_some X. inversion X; subst. same.
    - destruct (its_accept_operatorship w1 c from) as [[w3 ev3]|] eqn:X; inversion F; subst.
      unfold its_accept_operatorship in X. inv_some X. inversion X; subst. same.
    - destruct (get_tm w tma) as [t|]; [|same].
      destruct o; try same; destruct (tstep t (iw_led w) _) as [[t' l'] out]; try same.
      cbn [fst]. destruct (to_ok out); same.
    - destruct (find_ip id (iw_pend w)) as [p|]; [|same].
      destruct (ip_kind p); try same. destruct (ip_stage p); try same.
      destruct (if ok then _ else _); same.
    - destruct (find_ip id (iw_pend w)) as [p|]; [|same].
      destruct (ip_kind p); try same. destruct (ip_stage p) as [|ok]; try same.
      destruct (transfer_callback H _ c chain id0 src ph token_id tok amount ok) as [[w1 ev1]|] eqn:T; cbn [fst]; [|same].
      unfold transfer_callback in T. destruct ok.
      + inv_some T. inversion T; subst. its_eq. split; rewrite E; reflexivity.
      + inv_some T. inversion T; subst. its_eq. split; rewrite E; reflexivity.
    - destruct (find_ip id (iw_pend w)) as [p|]; [|same].
      destruct (ip_kind p); try same.
      + destruct (metadata_callback H _ c tok gas caller res) as [[w1 ev1]|] eqn:T; cbn [fst]; [|same].
        unfold metadata_callback in T. inv_some T; try (inversion T; subst; same).
        all: try (apply call_contract_mono in T; split; rewrite T; reflexivity).
      + destruct (remote_callback H _ c deploy_salt dest_chain symbol minter gas caller res) as [[w1 ev1]|] eqn:T; cbn [fst]; [|same].
        unfold remote_callback in T. inv_some T; try (inversion T; subst; same).
        all: try (apply deploy_token_raw_cfg in T; eapply cfg_trans; [|exact T]; same).
    - destruct (find_ip id (iw_pend w)) as [p|]; [|same].
      destruct (ip_kind p); try same. destruct (get_tm w tm) as [t|]; [|same].
      destruct (tstep t (iw_led w) _) as [[t' l'] out]. same.
  Qed.




  (* the trusted-address table changes only through the owner's two endpoints; the pause flag only through the owner's pause/unpause *)
  Theorem trusted_changes_owner_only w o :
    i_trusted (iw_its (fst (istep H verify w o))) <> i_trusted (iw_its w) ->
    exists c, ic_caller c = ic_owner c /\ ((exists chain a, o = ISetTrusted c chain a) \/ (exists chain, o = IRemoveTrusted c chain)).
  Proof.
    intro CH.
    assert (FR : (match o with ISetTrusted _ _ _ | IRemoveTrusted _ _ | IPause _ _ => True | _ => cfg w (fst (istep H verify w o)) end)) by apply istep_config_frame.
    destruct o; try (destruct FR as [FR _]; congruence); clear FR; cbn [istep] in CH; unfold itx in CH.
    - destruct (pay_in _ _ _ _) as [l1|]; [|cbn [fst] in CH; congruence]. unfold norets in CH.
      destruct (set_trusted_address (w_led_ w l1) c chain a) as [[w2 ev]|] eqn:A; [|cbn [fst] in CH; congruence].
      apply set_trusted_owner_only in A. exists c. split; [exact A | left; eauto].
    - destruct (pay_in _ _ _ _) as [l1|]; [|cbn [fst] in CH; congruence]. unfold norets in CH.
      destruct (remove_trusted_address (w_led_ w l1) c chain) as [[w2 ev]|] eqn:A; [|cbn [fst] in CH; congruence].
      apply remove_trusted_owner_only in A. exists c. split; [exact A | right; eauto].
    - exfalso. destruct (pay_in _ _ _ _) as [l1|]; [|cbn [fst] in CH; congruence]. unfold norets in CH.
      destruct (pause_ep (w_led_ w l1) c b) as [[w2 ev]|] eqn:A; [|cbn [fst] in CH; congruence].
      apply pause_spec in A as (_ & -> & _). cbn in CH. congruence.
  Qed.
  Theorem paused_changes_owner_only w o :
    i_paused (iw_its (fst (istep H verify w o))) <> i_paused (iw_its w) -> exists c b, o = IPause c b /\ ic_caller c = ic_owner c.
  Proof.
    intro CH.
    assert (FR : (match o with ISetTrusted _ _ _ | IRemoveTrusted _ _ | IPause _ _ => True | _ => cfg w (fst (istep H verify w o)) end)) by apply istep_config_frame.
    destruct o; try (destruct FR as [_ FR]; congruence); clear FR; cbn [istep] in CH; unfold itx in CH.
    - exfalso. destruct (pay_in _ _ _ _) as [l1|]; [|cbn [fst] in CH; congruence]. unfold norets in CH.
      destruct (set_trusted_address (w_led_ w l1) c chain a) as [[w2 ev]|] eqn:A; [|cbn [fst] in CH; congruence].
      unfold set_trusted_address in A. inv_some A. inversion A; subst. cbn in CH. congruence.
    - exfalso. destruct (pay_in _ _ _ _) as [l1|]; [|cbn [fst] in CH; congruence]. unfold norets in CH.
      destruct (remove_trusted_address (w_led_ w l1) c chain) as [[w2 ev]|] eqn:A; [|cbn [fst] in CH; congruence].
      unfold remove_trusted_address in A. inv_some A. inversion A; subst. cbn in CH. congruence.
    - destruct (pay_in _ _ _ _) as [l1|]; [|cbn [fst] in CH; congruence]. unfold norets in CH.
      destruct (pause_ep (w_led_ w l1) c b) as [[w2 ev]|] eqn:A; [|cbn [fst] in CH; congruence].
      apply pause_spec in A as (Ow & _ & _). exists c, b. auto.
  Qed.
End P.
