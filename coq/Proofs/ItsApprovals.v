(* Frame of the custom-minter approvals (C19): only approve / revoke / deploy-with-minter touch approved_destination_minters. *)
From Coq Require Import String List NArith Lia Bool.
From Ax Require Import Lib.Bytes Lib.Mvx Lib.SolAbi Lib.Keccak Model.Check Model.Env Model.Gateway Model.TokenManager Model.Its
     Proofs.AListFacts Proofs.GatewayMsgs Proofs.TMFacts Proofs.ItsFacts Proofs.ItsWorld.
Import ListNotations.
Open Scope N_scope.

(* the approvals table is the same in both worlds *)
Definition aps (w w' : iworld) : Prop := i_approvals (iw_its w') = i_approvals (iw_its w).
Lemma aps_refl w : aps w w.
Proof. reflexivity. Qed.
Lemma aps_trans a b c : aps a b -> aps b c -> aps a c.
Proof. unfold aps. congruence. Qed.
Lemma aps_same_its w w' : iw_its w' = iw_its w -> aps w w'.
Proof. intros E. unfold aps. rewrite E. reflexivity. Qed.

Section P.
  Variable H : bytes -> bytes.
  Variable verify : bytes -> bytes -> bytes -> bool.

  Lemma deploy_tm_aps w c token_id ty token operator w' : deploy_tm w c token_id ty token operator = Some w' -> aps w w'.
  Proof. intro D. apply deploy_tm_spec in D as (_ & _ & t & ev & _ & ->). reflexivity. Qed.

  Ltac its_eq :=
    repeat match goal with
    | Hx : call_contract _ _ _ _ _ _ _ _ = Some _ |- _ => apply (call_contract_mono H) in Hx
    | Hx : route_message _ _ _ _ _ _ _ = Some _ |- _ => apply (route_message_its H) in Hx
    | Hx : tm_call _ _ _ _ = Some _ |- _ => apply tm_call_its in Hx
    | Hx : call_tm_deploy_token _ _ _ _ _ _ = Some _ |- _ => apply call_tm_deploy_token_its in Hx
    | Hx : gw_validate _ _ _ _ _ _ _ = Some _ |- _ => apply (gw_validate_its H) in Hx
    | Hx : call_tm_give _ _ _ _ _ = Some _ |- _ => apply call_tm_give_its in Hx; destruct Hx as (Hx & _)
    | Hx : call_tm_take _ _ _ _ _ = Some _ |- _ => apply call_tm_take_its in Hx; destruct Hx as (Hx & _)
    | Hx : set_limits _ _ _ = Some _ |- _ => apply set_limits_its in Hx
    end.

  Lemma process_transfer_aps w c orig chain id src ph payload w' ev : process_transfer H w c orig chain id src ph payload = Some (w', ev) -> aps w w'.
  Proof.
    unfold process_transfer. intro R. inv_some R; inversion R; subst; its_eq; unfold aps; cbn; congruence.
  Qed.

  Lemma deploy_token_raw_aps w c ds dest n sy d m e w' ev : deploy_token_raw H w c ds dest n sy d m e = Some (w', ev) -> aps w w'.
  Proof.
    unfold deploy_token_raw, remote_base. intro R. inv_some R; inversion R; subst.
    - match goal with D : deploy_tm _ _ _ _ _ _ = Some _ |- _ => apply deploy_tm_aps in D; exact D end.
    - its_eq. unfold aps; congruence.
    - its_eq. unfold aps; congruence.
  Qed.

  Lemma process_deploy_aps w c chain id src ph payload w' ev : process_deploy H w c chain id src ph payload = Some (w', ev) -> aps w w'.
  Proof.
    unfold process_deploy. intro R. inv_some R; inversion R; subst.
    - match goal with D : deploy_tm _ _ _ _ _ _ = Some _ |- _ => apply deploy_tm_aps in D; exact D end.
    - its_eq. unfold aps; congruence.
  Qed.

  Lemma process_link_aps w c payload w' : process_link w c payload = Some w' -> aps w w'.
  Proof. unfold process_link. intro R. inv_some R. apply deploy_tm_aps in R. tauto. Qed.

  Lemma its_execute_aps w c chain id src payload w' ev : its_execute H w c chain id src payload = Some (w', ev) -> aps w w'.
  Proof.
    unfold its_execute. intro R. inv_some R.
    - eapply process_transfer_aps; eauto.
    - eapply process_deploy_aps; eauto.
    - inversion R; subst. match goal with V : gw_validate _ _ _ _ _ _ _ = Some _, L : process_link _ _ _ = Some _ |- _ =>
        apply gw_validate_its in V; apply process_link_aps in L; eapply aps_trans; [unfold aps; rewrite V; reflexivity | exact L] end.
  Qed.

  Lemma transmit_its w c t dc da a gt g d w' ev : transmit H w c t dc da a gt g d = Some (w', ev) -> iw_its w' = iw_its w.
  Proof. unfold transmit. intro R. inv_some R. eapply route_message_its; eauto. Qed.

  Lemma remote_raw_aps w c ds dc dm w' rets ev : remote_raw H w c ds dc dm = Some (w', rets, ev) -> aps w w'.
  Proof.
    unfold remote_raw. intro R. inv_some R; inversion R; subst.
    - match goal with D : deploy_token_raw _ _ _ _ _ _ _ _ _ _ = Some _ |- _ => apply deploy_token_raw_aps in D; exact D end.
    - unfold aps; reflexivity.
  Qed.

  Lemma register_custom_raw_aps w c ds tok ty lp w' rets ev : register_custom_raw H w c ds tok ty lp = Some (w', rets, ev) -> aps w w'.
  Proof. unfold register_custom_raw. intro R. inv_some R. inversion R; subst. match goal with D : deploy_tm _ _ _ _ _ _ = Some _ |- _ => apply deploy_tm_aps in D; exact D end. Qed.

  
  Ltac same := first [apply aps_refl | unfold aps; reflexivity].

  Theorem istep_approvals_frame w o :
    match o with
    | IApproveRemote _ _ _ _ _ | IRevokeRemote _ _ _ _ | IDeployRemote _ _ _ _ _ => True
    | _ => aps w (fst (istep H verify w o))
    end.
  Proof.
    assert (ITX : forall c f, (forall w1 w2 rets ev, iw_its w1 = iw_its w -> f w1 = Some (w2, rets, ev) -> aps w1 w2) -> aps w (fst (itx w c f))).
    { intros c f Hf. unfold itx. destruct (pay_in _ _ _ _) as [l1|]; [|same].
      destruct (f (w_led_ w l1)) as [[[w2 rets] ev]|] eqn:F; [|same]. cbn [fst].
      eapply aps_trans; [|eapply (Hf (w_led_ w l1)); [reflexivity | exact F]]. unfold aps; reflexivity. }
    destruct o; try exact I; cbn [istep]; try (apply ITX; intros w1 w2 rets ev Ei F; unfold norets in F).
    - destruct (gstep H verify (iw_gw w) o) as [g' r]. same.
    - destruct (its_execute H w1 c chain id src payload) as [[w3 ev3]|] eqn:X; inversion F; subst. eapply its_execute_aps; eauto.
    - destruct (interchain_transfer H w1 c token_id dest_chain dest_addr metadata gas) as [[w3 ev3]|] eqn:X; inversion F; subst.
      unfold interchain_transfer in X. inv_some X. apply transmit_its in X. its_eq. unfold aps; congruence.
    - destruct (call_contract_with_token H w1 c token_id dest_chain dest_addr data gas) as [[w3 ev3]|] eqn:X; inversion F; subst.
      unfold call_contract_with_token in X. inv_some X. apply transmit_its in X. its_eq. unfold aps; congruence.
    - destruct (register_token_metadata w1 c token) as [[w3 ev3]|] eqn:X; inversion F; subst.
      unfold register_token_metadata in X. inv_some X. inversion X; subst. same.
    - unfold deploy_interchain_token_ep in F. inv_some F; inversion F; subst; try same.
      all: try (match goal with D : deploy_token_raw _ _ _ _ _ _ _ _ _ _ = Some _ |- _ => apply deploy_token_raw_aps in D; exact D end).
      all: its_eq; unfold aps; congruence.
    - unfold register_canonical in F. inv_some F. eapply register_custom_raw_aps; eauto.
    - unfold deploy_remote_canonical in F. inv_some F. eapply remote_raw_aps; eauto.
    - unfold register_custom_token in F. inv_some F. eapply register_custom_raw_aps; eauto.
    - unfold link_token in F. inv_some F. inversion F; subst.
      match goal with Hx : route_message _ _ _ _ _ _ _ = Some _ |- _ => apply route_message_its in Hx; unfold aps; rewrite Hx; reflexivity end.
    - destruct (set_flow_limits w1 c ids limits) as [[w3 ev3]|] eqn:X; inversion F; subst.
      unfold set_flow_limits in X. inv_some X. inversion X; subst. its_eq. unfold aps; congruence.
    - destruct (set_trusted_address w1 c chain a) as [[w3 ev3]|] eqn:X; inversion F; subst.
      unfold set_trusted_address in X. inv_some X. inversion X; subst. same.
    - destruct (remove_trusted_address w1 c chain) as [[w3 ev3]|] eqn:X; inversion F; subst.
      unfold remove_trusted_address in X. inv_some X. inversion X; subst. same.
    - destruct (pause_ep w1 c b) as [[w3 ev3]|] eqn:X; inversion F; subst.
      apply pause_spec in X as (_ & -> & _). same.
    - destruct (its_transfer_operatorship w1 c a) as [[w3 ev3]|] eqn:X; inversion F; subst.
      unfold its_transfer_operatorship in X. inv_some X. inversion X; subst. same.
    - destruct (its_propose_operatorship w1 c a) as [[w3 ev3]|] eqn:X; inversion F; subst.
      unfold its_propose_operatorship in X. inv_some X. inversion X; subst. same.
    - destruct (its_accept_operatorship w1 c from) as [[w3 ev3]|] eqn:X; inversion F; subst.
      unfold its_accept_operatorship in X. inv_some X. inversion X; subst. same.
    - destruct (get_tm w tma) as [t|]; [|same].
      destruct o; try same; destruct (tstep t (iw_led w) _) as [[t' l'] out]; try same.
      cbn [fst]. destruct (to_ok out); same.
    - destruct (find_ip id (iw_pend w)) as [p|]; [|same].
      destruct (ip_kind p); try same. destruct (ip_stage p); try same.
      destruct (if ok then _ else _); same.
    - destruct (find_ip id (iw_pend w)) as [p|]; [|same].
      destruct (ip_kind p); try same. destruct (ip_stage p) as [|ok]; try same.
      destruct (transfer_callback H _ c chain id0 src ph token_id tok amount ok) as [[w1 ev1]|] eqn:T; cbn [fst]; [|same].
      unfold transfer_callback in T. destruct ok.
      + inv_some T. inversion T; subst. its_eq. unfold aps; rewrite E; reflexivity.
      + inv_some T. inversion T; subst. its_eq. unfold aps; rewrite E; reflexivity.
    - destruct (find_ip id (iw_pend w)) as [p|]; [|same].
      destruct (ip_kind p); try same.
      + destruct (metadata_callback H _ c tok gas caller res) as [[w1 ev1]|] eqn:T; cbn [fst]; [|same].
        unfold metadata_callback in T. inv_some T; try (inversion T; subst; same).
        all: try (apply call_contract_mono in T; unfold aps; rewrite T; reflexivity).
      + destruct (remote_callback H _ c deploy_salt dest_chain symbol minter gas caller res) as [[w1 ev1]|] eqn:T; cbn [fst]; [|same].
        unfold remote_callback in T. inv_some T; try (inversion T; subst; same).
        all: try (apply deploy_token_raw_aps in T; eapply aps_trans; [|exact T]; same).
    - destruct (find_ip id (iw_pend w)) as [p|]; [|same].
      destruct (ip_kind p); try same. destruct (get_tm w tm) as [t|]; [|same].
      destruct (tstep t (iw_led w) _) as [[t' l'] out]. same.
  Qed.



  (* ---------- where a stored approval can come from ---------- *)
  Definition appr (w : iworld) (key : bytes) : bytes := bget (i_approvals (iw_its w)) key.
  Lemma aps_appr w w' key : aps w w' -> appr w' key = appr w key.
  Proof. unfold aps, appr. intros ->. reflexivity. Qed.
  Lemma appr_set w s k v key : i_approvals s = i_approvals (iw_its w) -> appr (w_its w (set_approval s k v)) key = if bytes_eqb key k then v else appr w key.
  Proof. intro E. unfold appr, set_approval. cbn [iw_its w_its wset i_approvals iupd]. rewrite bget_aset, E. reflexivity. Qed.

  (* over EVERY operation: a non-empty approval that was not there before (or differs from before) was written by
     approveDeployRemoteInterchainToken, called by an account that holds the minter role of that token's manager at
     that moment, for exactly the key (caller, token id of (deployer, salt), destination chain) and the hash of the
     destination minter it named.  Revocation and use only ever empty a slot. *)
  Theorem approval_origin w o key w' : w' = fst (istep H verify w o) ->
    appr w' key <> [] -> appr w' key <> appr w key ->
    exists c deployer salt dchain dminter l1,
      o = IApproveRemote c deployer salt dchain dminter /\
      let token_id := interchain_token_id H (iw_its w) deployer salt in
      key = approval_key H (ic_caller c) token_id dchain /\
      appr w' key = H dminter /\
      check_token_minter (w_led_ w l1) c token_id (ic_caller c) = true.
  Proof.
    intros -> NE CH.
    assert (FR : (match o with IApproveRemote _ _ _ _ _ | IRevokeRemote _ _ _ _ | IDeployRemote _ _ _ _ _ => True | _ => aps w (fst (istep H verify w o)) end)) by apply istep_approvals_frame.
    destruct o; try (rewrite (aps_appr _ _ key FR) in CH; congruence); clear FR; cbn [istep] in NE, CH |- *; unfold itx in NE, CH |- *.
    - (* approve *)
      destruct (pay_in _ _ _ _) as [l1|]; [|cbn [fst] in CH; congruence]. unfold norets in NE, CH |- *.
      destruct (approve_remote H (w_led_ w l1) c deployer salt dest_chain dest_minter) as [[w2 ev]|] eqn:A; [|cbn [fst] in CH; congruence].
      cbn [fst] in NE, CH |- *. apply approve_remote_spec in A as (M & _ & ->). cbn [iw_its w_led_ wset] in M |- *.
      rewrite appr_set in NE, CH |- * by reflexivity.
      change (iw_its (w_led_ w l1)) with (iw_its w) in *. change (appr (w_led_ w l1) key) with (appr w key) in *.
      destruct (bytes_eqb key (approval_key H (ic_caller c) (interchain_token_id H (iw_its w) deployer salt) dest_chain)) eqn:K.
      + apply bytes_eqb_eq in K. exists c, deployer, salt, dest_chain, dest_minter, l1. split; [reflexivity|]. cbv zeta. auto.
      + exfalso. apply CH. reflexivity.
    - (* revoke: only empties *)
      destruct (pay_in _ _ _ _) as [l1|]; [|cbn [fst] in CH; congruence]. unfold norets in NE, CH.
      destruct (revoke_remote H (w_led_ w l1) c deployer salt dest_chain) as [[w2 ev]|] eqn:A; [|cbn [fst] in CH; congruence].
      cbn [fst] in NE, CH. apply revoke_remote_spec in A. subst w2. rewrite appr_set in NE, CH by reflexivity.
      change (appr (w_led_ w l1) key) with (appr w key) in *.
      destruct (bytes_eqb key _); [exfalso; apply NE; reflexivity | exfalso; apply CH; reflexivity].
    - (* deploy with minter: consumes (empties) the slot it uses *)
      destruct (pay_in _ _ _ _) as [l1|]; [|cbn [fst] in CH; congruence].
      destruct (deploy_remote_with_minter H (w_led_ w l1) c salt minter dest_chain dest_minter) as [[[w2 rets] ev]|] eqn:A; [|cbn [fst] in CH; congruence].
      cbn [fst] in NE, CH. apply deploy_remote_with_minter_spec in A as [A0 A1]. cbv zeta in A0, A1.
      destruct (bytes_eqb minter zero32) eqn:Z.
      + apply bytes_eqb_eq in Z. destruct (A0 Z) as [_ R]. apply remote_raw_aps in R. rewrite (aps_appr _ _ key R) in CH. change (appr (w_led_ w l1) key) with (appr w key) in *. exfalso. apply CH. reflexivity.
      + apply bytes_eqb_neq in Z. destruct (A1 Z) as [_ R]. destruct dest_minter as [d|].
        * destruct R as (_ & _ & R). apply remote_raw_aps in R. rewrite (aps_appr _ _ key R) in NE, CH. rewrite appr_set in NE, CH by reflexivity.
          change (appr (w_led_ w l1) key) with (appr w key) in *.
          destruct (bytes_eqb key _); [exfalso; apply NE; reflexivity | exfalso; apply CH; reflexivity].
        * apply remote_raw_aps in R. rewrite (aps_appr _ _ key R) in CH. change (appr (w_led_ w l1) key) with (appr w key) in *. exfalso. apply CH. reflexivity.
  Qed.
End P.
