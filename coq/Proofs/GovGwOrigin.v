(* The gateway inside the governance world is driven by gateway operations only (all nine operation kinds): the gateway transactions
   of the history and the validateMessage call made by governance.execute.  Hence an accepted governance command traces back to an
   approveMessages transaction OF THIS HISTORY whose batch named exactly that command for the governance contract, and which the gateway
   accepted (c01_sound: weighted-threshold proof of a registered signer set inside the retention window). *)
From Coq Require Import String List NArith Lia Bool.
From Ax Require Import Lib.Bytes Lib.Mvx Lib.Keccak Model.Check Model.Env Model.Gateway Model.Governance
     Proofs.AListFacts Proofs.GatewayMsgs Proofs.GovFacts Proofs.GovWorld.
Import ListNotations.
Open Scope N_scope.

Definition gis_val (o : gop) : Prop := match o with GValidate _ _ _ _ _ => True | _ => False end.

Section P.
  Variable H : bytes -> bytes.
  Variable verify : bytes -> bytes -> bytes -> bool.
  Notation step := (vstep H verify true).
  Notation vrun := (vrun H verify true).

  Lemma grun_app' a : forall g b, grun H verify g (a ++ b) = grun H verify (grun H verify g a) b.
  Proof. induction a as [|o r IH]; intros g b; [reflexivity|]. cbn [app]. rewrite !grun_cons. apply IH. Qed.

  Lemma step_gateway w o :
    exists os, w_gw (fst (step w o)) = grun H verify (w_gw w) os /\ Forall (fun go => o = VGateway go \/ gis_val go) os.
  Proof.
    assert (SAME : forall w', w_gw w' = w_gw w -> exists os, w_gw w' = grun H verify (w_gw w) os /\ Forall (fun go => o = VGateway go \/ gis_val go) os).
    { intros w' E. exists []. split; [exact E | constructor]. }
    destruct o as [go|c chain id src payload|c t cd v|c t cd v|c r a|c a|c tok nonce|self id ok rets|self id].
    - cbn [vstep]. destruct (gstep H verify (w_gw w) go) as [g' r] eqn:G. cbn [fst w_gw].
      exists [go]. split; [cbn [grun fold_left]; rewrite G; reflexivity | constructor; [left; reflexivity | constructor]].
    - cbn [vstep]. destruct (run_tx w c _) as [w' out] eqn:R. cbn [fst]. destruct (vo_ok out) eqn:O.
      + apply run_tx_some in R as (l1 & ev & _ & F & _); [|exact O]. unfold gov_execute in F.
        destruct (negb (has_no_value _)); [discriminate|]. cbn [w_gov w_gw w_led] in F.
        destruct (negb (_ && _)); [discriminate|].
        destruct (validate_message H (w_gw w) {| c_caller := x_self c; c_owner := []; c_now := x_now c |} chain id src (H payload)) as [[[gw' b] gwev]|] eqn:V; [|discriminate].
        destruct b; [|discriminate]. destruct (dec_exec_payload payload) as [p|]; [|discriminate].
        destruct (bytes_eqb (xp_target p) zero32); [discriminate|].
        destruct (process_command _ _ _ _ _ _) as [[g' ev']|]; [|discriminate]. inversion F; subst. cbn [w_gw].
        exists [GValidate {| c_caller := x_self c; c_owner := []; c_now := x_now c |} chain id src (H payload)].
        split; [cbn [grun fold_left gstep]; rewrite V; reflexivity | constructor; [right; exact I | constructor]].
      + apply run_tx_fail in R; [|exact O]. subst. apply SAME. reflexivity.
    - cbn [vstep]. destruct (run_tx w c _) as [w' out] eqn:R. cbn [fst]. destruct (vo_ok out) eqn:O.
      + apply run_tx_some in R as (l1 & ev & _ & F & _); [|exact O]. apply (execute_proposal_spec H) in F. cbv zeta in F.
        destruct F as (_ & _ & _ & _ & _ & _ & _ & _ & _ & d & _ & G & _). apply SAME. exact G.
      + apply run_tx_fail in R; [|exact O]. subst. apply SAME. reflexivity.
    - cbn [vstep]. destruct (run_tx w c _) as [w' out] eqn:R. cbn [fst]. destruct (vo_ok out) eqn:O.
      + apply run_tx_some in R as (l1 & ev & _ & F & _); [|exact O]. apply (execute_operator_proposal_spec H) in F. cbv zeta in F.
        destruct F as (_ & _ & _ & _ & _ & _ & _ & _ & _ & d & _ & G & _). apply SAME. exact G.
      + apply run_tx_fail in R; [|exact O]. subst. apply SAME. reflexivity.
    - cbn [vstep]. destruct (run_tx w c _) as [w' out] eqn:R. cbn [fst]. destruct (vo_ok out) eqn:O.
      + apply run_tx_some in R as (l1 & ev & _ & F & _); [|exact O]. unfold gov_withdraw in F.
        destruct (negb _ || negb _); [discriminate|]. destruct (negb _); [discriminate|].
        destruct (transfer _ _ _ _ _); inversion F; subst. apply SAME. reflexivity.
      + apply run_tx_fail in R; [|exact O]. subst. apply SAME. reflexivity.
    - cbn [vstep]. destruct (run_tx w c _) as [w' out] eqn:R. cbn [fst]. destruct (vo_ok out) eqn:O.
      + apply run_tx_some in R as (l1 & ev & _ & F & _); [|exact O]. unfold gov_transfer_operatorship in F.
        destruct (negb _ || negb _); [discriminate|]. destruct (negb _); [discriminate|].
        destruct (bytes_eqb a zero32); inversion F; subst. apply SAME. reflexivity.
      + apply run_tx_fail in R; [|exact O]. subst. apply SAME. reflexivity.
    - cbn [vstep]. destruct (run_tx w c _) as [w' out] eqn:R. cbn [fst]. destruct (vo_ok out) eqn:O.
      + apply run_tx_some in R as (l1 & ev & _ & F & _); [|exact O]. unfold gov_withdraw_refund in F.
        destruct (negb _); [discriminate|]. cbn [w_gov] in F.
        destruct (refund_of _ _ _ _ =? 0); [inversion F; subst; apply SAME; reflexivity|].
        destruct (transfer _ _ _ _ _); inversion F; subst. apply SAME. reflexivity.
      + apply run_tx_fail in R; [|exact O]. subst. apply SAME. reflexivity.
    - cbn [vstep]. destruct (find_pending id (w_pend w)) as [p|]; [|apply SAME; reflexivity].
      destruct (gp_stage p); [|apply SAME; reflexivity].
      destruct (if ok then _ else _); cbn [fst w_gw]; apply SAME; reflexivity.
    - cbn [vstep]. destruct (find_pending id (w_pend w)) as [p|]; [|apply SAME; reflexivity].
      destruct (gp_stage p) as [|ok rets]; [apply SAME; reflexivity|].
      destruct (callback true self (w_gov w) p ok rets) as [g' ev]. cbn [fst w_gw]. apply SAME. reflexivity.
  Qed.

  Theorem gov_gateway_projection ops : forall w,
    exists os, w_gw (vrun w ops) = grun H verify (w_gw w) os /\ Forall (fun go => In (VGateway go) ops \/ gis_val go) os.
  Proof.
    induction ops as [|o r IH]; intro w; [exists []; split; [reflexivity | constructor]|].
    change (vrun w (o :: r)) with (vrun (fst (step w o)) r). destruct (step_gateway w o) as (o1 & E1 & F1). destruct (IH (fst (step w o))) as (o2 & E2 & F2).
    exists (o1 ++ o2). split; [rewrite grun_app', <- E1; exact E2|].
    apply Forall_app. split.
    - eapply Forall_impl; [|exact F1]. intros go [A|A]; [left; left; exact A | right; exact A].
    - eapply Forall_impl; [|exact F2]. intros go [A|A]; [left; right; exact A | right; exact A].
  Qed.

  Lemma batch_msgs_source' os : forall g m, In m (batch_msgs H verify g os) ->
    exists pre c raw p post ms, os = pre ++ GApprove c raw p :: post /\
      approve_messages H verify (grun H verify g pre) raw p <> None /\ dec_messages_top raw = Some ms /\ In m ms.
  Proof.
    induction os as [|o r IH]; intros g m Hin; [destruct Hin|].
    cbn [batch_msgs] in Hin. apply in_app_or in Hin as [Hin|Hin].
    - destruct o as [c raw p|c s p|c chain id src ph|c a|c chain addr payload|c chain id src contract ph|c chain id]; try destruct Hin.
      destruct (approve_messages H verify g raw p) as [x|] eqn:A; [|destruct Hin].
      destruct (dec_messages_top raw) as [ms|] eqn:D; [|destruct Hin].
      exists [], c, raw, p, r, ms. repeat split; auto. cbn [grun fold_left]. rewrite A. discriminate.
    - apply IH in Hin as (pre & c & raw & p & post & ms & -> & A & D & M).
      exists (o :: pre), c, raw, p, post, ms. repeat split; auto.
  Qed.

  (* END TO END: a governance command accepted in the world reached by ANY history from a world whose gateway did not know the message
     traces back to an approveMessages transaction of this history: its batch named exactly (chain, id) with the configured governance
     source address, the governance contract as destination and the hash of exactly this payload; the gateway accepted it *)
  Theorem command_traces_to_batch ops w0 c chain id src payload w' ev :
    mst (w_gw w0) (chain, id) = None ->
    gov_execute H true (vrun w0 ops) c chain id src payload = Some (w', ev) ->
    exists cg raw p ms m pre,
      In (VGateway (GApprove cg raw p)) ops /\ dec_messages_top raw = Some ms /\ In m ms /\ mkey m = (chain, id) /\
      mhash H m = message_hash H chain id src (x_self c) (H payload) /\
      Forall (fun go => In (VGateway go) ops \/ gis_val go) pre /\
      approve_messages H verify (grun H verify (w_gw w0) pre) raw p <> None.
  Proof.
    intros E0 X. apply gov_execute_spec in X as (_ & _ & A & _). apply is_approved_with_spec in A.
    destruct (gov_gateway_projection ops w0) as (os & Eg & F). rewrite Eg in A.
    apply approval_origin in A as [A|(m & Hin & Hk & Hh)]; [congruence|].
    apply batch_msgs_source' in Hin as (pre & cg & raw & p & post & ms & -> & Acc & D & M).
    apply Forall_app in F as [Fpre Fr]. inversion Fr as [|x l Hx Hl]; subst.
    exists cg, raw, p, ms, m, pre. repeat split; auto.
    destruct Hx as [Hx|Hx]; [exact Hx | destruct Hx].
  Qed.
End P.
