(* Frame of the service's role table: which operations can change who holds the operator role of the ITS (C20). *)
From Coq Require Import String List NArith Lia Bool.
From Ax Require Import Lib.Bytes Lib.Mvx Lib.SolAbi Lib.Keccak Model.Check Model.Env Model.Gateway Model.TokenManager Model.Its
     Proofs.AListFacts Proofs.GatewayMsgs Proofs.TMFacts Proofs.ItsFacts Proofs.ItsWorld.
Import ListNotations.
Open Scope N_scope.

(* the role table and the pending proposals of the service are the same in both worlds *)
Definition rs (w w' : iworld) : Prop :=
  i_roles (iw_its w') = i_roles (iw_its w) /\ i_proposed (iw_its w') = i_proposed (iw_its w).
Lemma rs_refl w : rs w w.
Proof. split; reflexivity. Qed.
Lemma rs_trans a b c : rs a b -> rs b c -> rs a c.
Proof. intros [A1 A2] [B1 B2]. split; congruence. Qed.
Lemma rs_same_its w w' : iw_its w' = iw_its w -> rs w w'.
Proof. intros E. unfold rs. rewrite E. split; reflexivity. Qed.

Section P.
  Variable H : bytes -> bytes.
  Variable verify : bytes -> bytes -> bytes -> bool.

  Lemma deploy_tm_rs w c token_id ty token operator w' : deploy_tm w c token_id ty token operator = Some w' -> rs w w'.
  Proof. intro D. apply deploy_tm_spec in D as (_ & _ & t & ev & _ & ->). split; reflexivity. Qed.

  Ltac its_eq :=
    repeat match goal with
    | Hx : call_contract _ _ _ _ _ _ _ _ = Some _ |- _ => apply (call_contract_mono H) in Hx
    | Hx : route_message _ _ _ _ _ _ _ = Some _ |- _ => apply (route_message_its H) in Hx
    | Hx : tm_call _ _ _ _ = Some _ |- _ => apply tm_call_its in Hx
    | Hx : call_tm_deploy_token _ _ _ _ _ _ = Some _ |- _ => apply call_tm_deploy_token_its in Hx
    | Hx : gw_validate _ _ _ _ _ _ _ = Some _ |- _ => apply (gw_validate_its H) in Hx
    | Hx : call_tm_give _ _ _ _ _ = Some _ |- _ => apply call_tm_give_its in Hx; destruct Hx as (Hx & _)
    | Hx : call_tm_take _ _ _ _ _ = Some _ |- _ => apply call_tm_take_its in Hx; destruct Hx as (Hx & _)
    | Hx : set_limits _ _ _ = Some _ |- _ => apply set_limits_its in Hx
    end.

  Lemma process_transfer_rs w c orig chain id src ph payload w' ev : process_transfer H w c orig chain id src ph payload = Some (w', ev) -> rs w w'.
  Proof.
    unfold process_transfer. intro R. inv_some R; inversion R; subst; its_eq; split; cbn; congruence.
  Qed.

  Lemma deploy_token_raw_rs w c ds dest n sy d m e w' ev : deploy_token_raw H w c ds dest n sy d m e = Some (w', ev) -> rs w w'.
  Proof.
    unfold deploy_token_raw, remote_base. intro R. inv_some R; inversion R; subst.
    - match goal with D : deploy_tm _ _ _ _ _ _ = Some _ |- _ => apply deploy_tm_rs in D; exact D end.
    - its_eq. split; congruence.
    - its_eq. split; congruence.
  Qed.

  Lemma process_deploy_rs w c chain id src ph payload w' ev : process_deploy H w c chain id src ph payload = Some (w', ev) -> rs w w'.
  Proof.
    unfold process_deploy. intro R. inv_some R; inversion R; subst.
    - match goal with D : deploy_tm _ _ _ _ _ _ = Some _ |- _ => apply deploy_tm_rs in D; exact D end.
    - its_eq. split; congruence.
  Qed.

  Lemma process_link_rs w c payload w' : process_link w c payload = Some w' -> rs w w'.
  Proof. unfold process_link. intro R. inv_some R. apply deploy_tm_rs in R. tauto. Qed.

  Lemma its_execute_rs w c chain id src payload w' ev : its_execute H w c chain id src payload = Some (w', ev) -> rs w w'.
  Proof.
    unfold its_execute. intro R. inv_some R.
    - eapply process_transfer_rs; eauto.
    - eapply process_deploy_rs; eauto.
    - inversion R; subst. match goal with V : gw_validate _ _ _ _ _ _ _ = Some _, L : process_link _ _ _ = Some _ |- _ =>
        apply gw_validate_its in V; apply process_link_rs in L; eapply rs_trans; [split; rewrite V; reflexivity | exact L] end.
  Qed.

  Lemma transmit_its w c t dc da a gt g d w' ev : transmit H w c t dc da a gt g d = Some (w', ev) -> iw_its w' = iw_its w.
  Proof. unfold transmit. intro R. inv_some R. eapply route_message_its; eauto. Qed.

  Lemma remote_raw_rs w c ds dc dm w' rets ev : remote_raw H w c ds dc dm = Some (w', rets, ev) -> rs w w'.
  Proof.
    unfold remote_raw. intro R. inv_some R; inversion R; subst.
    - match goal with D : deploy_token_raw _ _ _ _ _ _ _ _ _ _ = Some _ |- _ => apply deploy_token_raw_rs in D; exact D end.
    - split; reflexivity.
  Qed.

  Lemma register_custom_raw_rs w c ds tok ty lp w' rets ev : register_custom_raw H w c ds tok ty lp = Some (w', rets, ev) -> rs w w'.
  Proof. unfold register_custom_raw. intro R. inv_some R. inversion R; subst. match goal with D : deploy_tm _ _ _ _ _ _ = Some _ |- _ => apply deploy_tm_rs in D; exact D end. Qed.

  
  Ltac same := first [apply rs_refl | split; reflexivity].

  Theorem istep_roles_frame w o :
    match o with
    | ITransferOp _ _ | IProposeOp _ _ | IAcceptOp _ _ => True
    | _ => rs w (fst (istep H verify w o))
    end.
  Proof.
    assert (ITX : forall c f, (forall w1 w2 rets ev, iw_its w1 = iw_its w -> f w1 = Some (w2, rets, ev) -> rs w1 w2) -> rs w (fst (itx w c f))).
    { intros c f Hf. unfold itx. destruct (pay_in _ _ _ _) as [l1|]; [|same].
      destruct (f (w_led_ w l1)) as [[[w2 rets] ev]|] eqn:F; [|same]. cbn [fst].
      eapply rs_trans; [|eapply (Hf (w_led_ w l1)); [reflexivity | exact F]]. split; reflexivity. }
    destruct o; try exact I; cbn [istep]; try (apply ITX; intros w1 w2 rets ev Ei F; unfold norets in F).
    - destruct (gstep H verify (iw_gw w) o) as [g' r]. same.
    - destruct (its_execute H w1 c chain id src payload) as [[w3 ev3]|] eqn:X; inversion F; subst. eapply its_execute_rs; eauto.
    - destruct (interchain_transfer H w1 c token_id dest_chain dest_addr metadata gas) as [[w3 ev3]|] eqn:X; inversion F; subst.
      unfold interchain_transfer in X. inv_some X. apply transmit_its in X. its_eq. split; congruence.
    - destruct (call_contract_with_token H w1 c token_id dest_chain dest_addr data gas) as [[w3 ev3]|] eqn:X; inversion F; subst.
      unfold call_contract_with_token in X. inv_some X. apply transmit_its in X. its_eq. split; congruence.
    - destruct (register_token_metadata w1 c token) as [[w3 ev3]|] eqn:X; inversion F; subst.
      unfold register_token_metadata in X. inv_some X. inversion X; subst. same.
    - unfold deploy_interchain_token_ep in F. inv_some F; inversion F; subst; try same.
      all: try (match goal with D : deploy_token_raw _ _ _ _ _ _ _ _ _ _ = Some _ |- _ => apply deploy_token_raw_rs in D; exact D end).
      all: its_eq; split; congruence.
    - destruct (approve_remote H w1 c deployer salt dest_chain dest_minter) as [[w3 ev3]|] eqn:X; inversion F; subst.
      apply approve_remote_spec in X as (_ & _ & ->). same.
    - destruct (revoke_remote H w1 c deployer salt dest_chain) as [[w3 ev3]|] eqn:X; inversion F; subst.
      apply revoke_remote_spec in X. subst. same.
    - unfold deploy_remote_with_minter in F. inv_some F.
      + apply remote_raw_rs in F. eapply rs_trans; [|exact F]. same.
      + eapply remote_raw_rs; eauto.
      + eapply remote_raw_rs; eauto.
    - unfold register_canonical in F. inv_some F. eapply register_custom_raw_rs; eauto.
    - unfold deploy_remote_canonical in F. inv_some F. eapply remote_raw_rs; eauto.
    - unfold register_custom_token in F. inv_some F. eapply register_custom_raw_rs; eauto.
    - unfold link_token in F. inv_some F. inversion F; subst.
      match goal with Hx : route_message _ _ _ _ _ _ _ = Some _ |- _ => apply route_message_its in Hx; split; rewrite Hx; reflexivity end.
    - destruct (set_flow_limits w1 c ids limits) as [[w3 ev3]|] eqn:X; inversion F; subst.
      unfold set_flow_limits in X. inv_some X. inversion X; subst. its_eq. split; congruence.
    - destruct (set_trusted_address w1 c chain a) as [[w3 ev3]|] eqn:X; inversion F; subst.
      unfold set_trusted_address in X. inv_some X. inversion X; subst. same.
    - destruct (remove_trusted_address w1 c chain) as [[w3 ev3]|] eqn:X; inversion F; subst.
      unfold remove_trusted_address in X. inv_some X. inversion X; subst. same.
    - destruct (pause_ep w1 c b) as [[w3 ev3]|] eqn:X; inversion F; subst.
      apply pause_spec in X as (_ & -> & _). same.
    - destruct (get_tm w tma) as [t|]; [|same].
      destruct o; try same; destruct (tstep t (iw_led w) _) as [[t' l'] out]; try same.
      cbn [fst]. destruct (to_ok out); same.
    - destruct (find_ip id (iw_pend w)) as [p|]; [|same].
      destruct (ip_kind p); try same. destruct (ip_stage p); try same.
      destruct (if ok then _ else _); same.
    - destruct (find_ip id (iw_pend w)) as [p|]; [|same].
      destruct (ip_kind p); try same. destruct (ip_stage p) as [|ok]; try same.
      destruct (transfer_callback H _ c chain id0 src ph token_id tok amount ok) as [[w1 ev1]|] eqn:T; cbn [fst]; [|same].
      unfold transfer_callback in T. destruct ok.
      + inv_some T. inversion T; subst. its_eq. split; rewrite E; reflexivity.
      + inv_some T. inversion T; subst. its_eq. split; rewrite E; reflexivity.
    - destruct (find_ip id (iw_pend w)) as [p|]; [|same].
      destruct (ip_kind p); try same.
      + destruct (metadata_callback H _ c tok gas caller res) as [[w1 ev1]|] eqn:T; cbn [fst]; [|same].
        unfold metadata_callback in T. inv_some T; try (inversion T; subst; same).
        all: try (apply call_contract_mono in T; split; rewrite T; reflexivity).
      + destruct (remote_callback H _ c deploy_salt dest_chain symbol minter gas caller res) as [[w1 ev1]|] eqn:T; cbn [fst]; [|same].
        unfold remote_callback in T. inv_some T; try (inversion T; subst; same).
        all: try (apply deploy_token_raw_rs in T; eapply rs_trans; [|exact T]; same).
    - destruct (find_ip id (iw_pend w)) as [p|]; [|same].
      destruct (ip_kind p); try same. destruct (get_tm w tm) as [t|]; [|same].
      destruct (tstep t (iw_led w) _) as [[t' l'] out]. same.
  Qed.


  (* ---------- who can come to hold the service's operator role ---------- *)
  Definition is_op (s : its) (a : bytes) : bool := intersects (iroles s a) OPERATOR.

  Lemma iroles_set s x r y : iroles (set_iroles s x r) y = if bytes_eqb y x then r else iroles s y.
  Proof.
    unfold iroles, set_iroles. cbn [i_roles iupd]. rewrite (alookup_aset bytes_eqb bytes_eqb_eq).
    destruct (bytes_eqb y x); reflexivity.
  Qed.
  Lemma iroles_set_proposed s f t r y : iroles (set_iproposed s f t r) y = iroles s y.
  Proof. reflexivity. Qed.
  Lemma no_op_after_ldiff r : intersects (N.ldiff r OPERATOR) OPERATOR = false.
  Proof. unfold intersects. rewrite N.land_ldiff. reflexivity. Qed.
  Lemma rs_is_op w w' a : rs w w' -> is_op (iw_its w') a = is_op (iw_its w) a.
  Proof. intros [E _]. unfold is_op, iroles. rewrite E. reflexivity. Qed.

  (* the only ways an account that is not an operator of the service becomes one: the current holder transfers the
     role to it, or it accepts a proposal that a holder made to exactly it *)
  Theorem operator_gain w o a :
    is_op (iw_its (fst (istep H verify w o))) a = true -> is_op (iw_its w) a = false ->
    (exists c, o = ITransferOp c a /\ is_op (iw_its w) (ic_caller c) = true) \/
    (exists c from, o = IAcceptOp c from /\ ic_caller c = a /\ iproposed (iw_its w) from a = OPERATOR /\ is_op (iw_its w) from = true).
  Proof.
    intros G N.
    assert (FR : (match o with ITransferOp _ _ | IProposeOp _ _ | IAcceptOp _ _ => True | _ => rs w (fst (istep H verify w o)) end)) by apply istep_roles_frame.
    destruct o; try (rewrite (rs_is_op _ _ a FR) in G; congruence); clear FR; cbn [istep] in G; unfold itx in G.
    - (* transfer *)
      destruct (pay_in _ _ _ _) as [l1|]; [|cbn in G; congruence].
      unfold norets in G. destruct (its_transfer_operatorship (w_led_ w l1) c a0) as [[w2 ev]|] eqn:T; [|cbn in G; congruence].
      cbn [fst] in G. unfold its_transfer_operatorship in T. inv_some T. inversion T; subst; clear T. cbn [iw_its w_its wset w_led_] in *.
      unfold is_op in G. rewrite iroles_set in G. destruct (bytes_eqb a a0) eqn:Ea.
      + apply bytes_eqb_eq in Ea. subst a0. left. exists c. split; [reflexivity|]. unfold is_op.
        match goal with Hx : negb (intersects _ OPERATOR) = false |- _ => apply negb_false_iff in Hx; exact Hx end.
      + rewrite iroles_set in G. destruct (bytes_eqb a (ic_caller c)) eqn:Ec.
        * rewrite no_op_after_ldiff in G. discriminate.
        * unfold is_op in N. congruence.
    - (* propose: the role table is untouched *)
      destruct (pay_in _ _ _ _) as [l1|]; [|cbn in G; congruence].
      unfold norets in G. destruct (its_propose_operatorship (w_led_ w l1) c a0) as [[w2 ev]|] eqn:T; [|cbn in G; congruence].
      cbn [fst] in G. unfold its_propose_operatorship in T. inv_some T. inversion T; subst; clear T. cbn [iw_its w_its wset w_led_] in *.
      unfold is_op in G, N. rewrite iroles_set_proposed in G. congruence.
    - (* accept *)
      destruct (pay_in _ _ _ _) as [l1|]; [|cbn in G; congruence].
      unfold norets in G. destruct (its_accept_operatorship (w_led_ w l1) c from) as [[w2 ev]|] eqn:T; [|cbn in G; congruence].
      cbn [fst] in G. unfold its_accept_operatorship in T. cbv zeta in T. inv_some T. inversion T; subst; clear T. cbn [iw_its w_its wset w_led_] in *.
      unfold is_op in G. rewrite iroles_set in G. destruct (bytes_eqb a (ic_caller c)) eqn:Ea.
      + apply bytes_eqb_eq in Ea. subst a. right. exists c, from. split; [reflexivity|]. split; [reflexivity|].
        match goal with Hx : (_ =? 0) || negb (_ =? OPERATOR) = false |- _ => apply orb_false_iff in Hx as [_ Hx]; apply negb_false_iff in Hx; apply N.eqb_eq in Hx end.
        split; [assumption|].
        match goal with Hx : negb (contains (iroles (set_iproposed _ _ _ _) from) OPERATOR) = false |- _ =>
          apply negb_false_iff in Hx; rewrite iroles_set_proposed in Hx; unfold contains in Hx; apply N.eqb_eq in Hx; unfold is_op, intersects; rewrite Hx; reflexivity end.
      + rewrite iroles_set in G. destruct (bytes_eqb a from) eqn:Ef.
        * rewrite no_op_after_ldiff in G. discriminate.
        * rewrite iroles_set_proposed in G. unfold is_op in N. congruence.
  Qed.
End P.
