(* ITS world-level facts: token-id bindings are write-once over every operation (C14), outbound
   transfer effect (C05), asynchronous callbacks (C08, C17), local deployment steps (C18). *)
From Coq Require Import String Ascii.
From Coq Require Import List Arith NArith Lia Bool.
From Coq Require Import Init.Byte Strings.Byte.
From Ax Require Import Lib.Bytes Lib.Mvx Lib.SolAbi Lib.Keccak Model.Check Model.Env Model.Gateway Model.TokenManager Model.Its
     Proofs.SolAbiEnc Proofs.SolAbiDec Proofs.AListFacts Proofs.GatewayMsgs Proofs.TMFacts Proofs.ItsFacts.
Import ListNotations.
Open Scope N_scope.

(* every existing token-id binding is kept *)
Definition tms_mono (w w' : iworld) : Prop :=
  forall id, tm_addr (iw_its w) id <> [] -> tm_addr (iw_its w') id = tm_addr (iw_its w) id.

Lemma tms_mono_refl w : tms_mono w w.
Proof. intros id _. reflexivity. Qed.
Lemma tms_mono_trans a b c : tms_mono a b -> tms_mono b c -> tms_mono a c.
Proof. intros A B id Hn. rewrite (B id); [apply A; exact Hn | rewrite (A id Hn); exact Hn]. Qed.
Lemma tms_mono_same_its w w' : i_tms (iw_its w') = i_tms (iw_its w) -> tms_mono w w'.
Proof. intros E id _. unfold tm_addr. rewrite E. reflexivity. Qed.

Section P.
  Variable H : bytes -> bytes.
  Variable verify : bytes -> bytes -> bytes -> bool.

  Lemma deploy_tm_spec w c token_id ty token operator w' :
    deploy_tm w c token_id ty token operator = Some w' ->
    tm_addr (iw_its w) token_id = [] /\ ic_newtm c <> [] /\
    exists t ev, tm_init (ic_newtm c) (ic_self c) ty token_id (if bytes_eqb operator [] then None else Some operator) token = Some (t, ev) /\
      w' = w_its (w_tm w (ic_newtm c) t) (set_tm (iw_its w) token_id (ic_newtm c)).
  Proof.
    unfold deploy_tm. intro R. inv_some R. inversion R; subst.
    match goal with A : negb (bytes_eqb (tm_addr _ _) []) = false |- _ => apply negb_false_iff in A; apply bytes_eqb_eq in A; split; [exact A|] end.
    match goal with B : bytes_eqb (ic_newtm c) [] = false |- _ => apply bytes_eqb_neq in B; split; [exact B|] end. eauto.
  Qed.

  (* write-once: a manager is created only for an unbound id; the new binding is the provided address *)
  Lemma deploy_tm_mono w c token_id ty token operator w' : deploy_tm w c token_id ty token operator = Some w' ->
    tms_mono w w' /\ tm_addr (iw_its w') token_id = ic_newtm c.
  Proof.
    intro D. apply deploy_tm_spec in D as (E & Hn & t & ev & _ & ->). split.
    - intros id Hid. unfold tm_addr. cbn [iw_its w_its wset set_tm i_tms iupd]. rewrite bget_aset.
      destruct (bytes_eqb id token_id) eqn:Ei; [|reflexivity]. apply bytes_eqb_eq in Ei. subst. contradiction.
    - unfold tm_addr. cbn [iw_its w_its wset set_tm i_tms iupd]. rewrite bget_aset, bytes_eqb_refl. reflexivity.
  Qed.

  Lemma call_contract_mono w c dc da p gt g w' ev : call_contract H w c dc da p gt g = Some (w', ev) -> iw_its w' = iw_its w.
  Proof. intro R. apply call_contract_spec in R as (_ & E & _). exact E. Qed.
  Lemma route_message_its w c d p gt g w' ev : route_message H w c d p gt g = Some (w', ev) -> iw_its w' = iw_its w.
  Proof. intro R. apply route_message_spec in R as (dc & da & p' & _ & R). eapply call_contract_mono; eauto. Qed.
  Lemma tm_call_its w c tma f w' : tm_call w c tma f = Some w' -> iw_its w' = iw_its w.
  Proof. unfold tm_call. intro R. inv_some R. destruct p as [[[t' l'] rets] logs]. inversion R; subst. reflexivity. Qed.
  Lemma call_tm_deploy_token_its w c id m n s w' : call_tm_deploy_token w c id m n s = Some w' -> iw_its w' = iw_its w.
  Proof. unfold call_tm_deploy_token. intro R. inv_some R. destruct p as [[[t' l'] rets] logs]. inversion R; subst. reflexivity. Qed.
  Lemma gw_validate_its w c chain id src ph w' b ev : gw_validate H w c chain id src ph = Some (w', b, ev) -> iw_its w' = iw_its w.
  Proof. intro V. apply gw_validate_spec in V as (_ & E & _). exact E. Qed.
  Lemma set_limits_its items : forall w c w', set_limits w c items = Some w' -> iw_its w' = iw_its w.
  Proof.
    induction items as [|[id l] r IH]; intros w c w' R; cbn [set_limits] in R; [inversion R; reflexivity|].
    inv_some R. apply IH in R. rewrite R. eapply tm_call_its; eauto.
  Qed.

  Ltac its_eq :=
    repeat match goal with
    | Hx : call_contract _ _ _ _ _ _ _ _ = Some _ |- _ => apply call_contract_mono in Hx
    | Hx : route_message _ _ _ _ _ _ _ = Some _ |- _ => apply route_message_its in Hx
    | Hx : tm_call _ _ _ _ = Some _ |- _ => apply tm_call_its in Hx
    | Hx : call_tm_deploy_token _ _ _ _ _ _ = Some _ |- _ => apply call_tm_deploy_token_its in Hx
    | Hx : gw_validate _ _ _ _ _ _ _ = Some _ |- _ => apply gw_validate_its in Hx
    | Hx : call_tm_give _ _ _ _ _ = Some _ |- _ => apply call_tm_give_its in Hx; destruct Hx as (Hx & _)
    | Hx : call_tm_take _ _ _ _ _ = Some _ |- _ => apply call_tm_take_its in Hx; destruct Hx as (Hx & _)
    | Hx : set_limits _ _ _ = Some _ |- _ => apply set_limits_its in Hx
    end.

  Lemma process_transfer_mono w c orig chain id src ph payload w' ev : process_transfer H w c orig chain id src ph payload = Some (w', ev) -> tms_mono w w'.
  Proof.
    unfold process_transfer. intro R. inv_some R; inversion R; subst; its_eq; apply tms_mono_same_its; cbn; congruence.
  Qed.

  Lemma deploy_token_raw_mono w c ds dest n sy d m e w' ev : deploy_token_raw H w c ds dest n sy d m e = Some (w', ev) -> tms_mono w w'.
  Proof.
    unfold deploy_token_raw, remote_base. intro R. inv_some R; inversion R; subst.
    - match goal with D : deploy_tm _ _ _ _ _ _ = Some _ |- _ => apply deploy_tm_mono in D; tauto end.
    - its_eq. apply tms_mono_same_its. congruence.
    - its_eq. apply tms_mono_same_its. congruence.
  Qed.

  Lemma process_deploy_mono w c chain id src ph payload w' ev : process_deploy H w c chain id src ph payload = Some (w', ev) -> tms_mono w w'.
  Proof.
    unfold process_deploy. intro R. inv_some R; inversion R; subst.
    - match goal with D : deploy_tm _ _ _ _ _ _ = Some _ |- _ => apply deploy_tm_mono in D; tauto end.
    - its_eq. apply tms_mono_same_its. congruence.
  Qed.

  Lemma process_link_mono w c payload w' : process_link w c payload = Some w' -> tms_mono w w'.
  Proof. unfold process_link. intro R. inv_some R. apply deploy_tm_mono in R. tauto. Qed.

  Lemma its_execute_mono w c chain id src payload w' ev : its_execute H w c chain id src payload = Some (w', ev) -> tms_mono w w'.
  Proof.
    unfold its_execute. intro R. inv_some R.
    - eapply process_transfer_mono; eauto.
    - eapply process_deploy_mono; eauto.
    - inversion R; subst. match goal with V : gw_validate _ _ _ _ _ _ _ = Some _, L : process_link _ _ _ = Some _ |- _ =>
        apply gw_validate_its in V; apply process_link_mono in L; eapply tms_mono_trans; [apply tms_mono_same_its; rewrite V; reflexivity | exact L] end.
  Qed.

  Lemma transmit_its w c t dc da a gt g d w' ev : transmit H w c t dc da a gt g d = Some (w', ev) -> iw_its w' = iw_its w.
  Proof. unfold transmit. intro R. inv_some R. eapply route_message_its; eauto. Qed.

  Lemma remote_raw_mono w c ds dc dm w' rets ev : remote_raw H w c ds dc dm = Some (w', rets, ev) -> tms_mono w w'.
  Proof.
    unfold remote_raw. intro R. inv_some R; inversion R; subst.
    - match goal with D : deploy_token_raw _ _ _ _ _ _ _ _ _ _ = Some _ |- _ => apply deploy_token_raw_mono in D; exact D end.
    - apply tms_mono_same_its. reflexivity.
  Qed.

  Lemma register_custom_raw_mono w c ds tok ty lp w' rets ev : register_custom_raw H w c ds tok ty lp = Some (w', rets, ev) -> tms_mono w w'.
  Proof. unfold register_custom_raw. intro R. inv_some R. inversion R; subst. match goal with D : deploy_tm _ _ _ _ _ _ = Some _ |- _ => apply deploy_tm_mono in D; tauto end. Qed.

  (* C14: over EVERY operation of every caller (and every asynchronous step), a bound token id keeps its manager *)
  Ltac same := first [apply tms_mono_refl | apply tms_mono_same_its; reflexivity].

  Theorem istep_tms_mono w o : tms_mono w (fst (istep H verify w o)).
  Proof.
    assert (ITX : forall c f, (forall w1 w2 rets ev, iw_its w1 = iw_its w -> f w1 = Some (w2, rets, ev) -> tms_mono w1 w2) -> tms_mono w (fst (itx w c f))).
    { intros c f Hf. unfold itx. destruct (pay_in _ _ _ _) as [l1|]; [|same].
      destruct (f (w_led_ w l1)) as [[[w2 rets] ev]|] eqn:F; [|same]. cbn [fst].
      eapply tms_mono_trans; [|eapply (Hf (w_led_ w l1)); [reflexivity | exact F]]. apply tms_mono_same_its. reflexivity. }
    destruct o; cbn [istep]; try (apply ITX; intros w1 w2 rets ev Ei F; unfold norets in F).
    - destruct (gstep H verify (iw_gw w) o) as [g' r]. same.
    - destruct (its_execute H w1 c chain id src payload) as [[w3 ev3]|] eqn:X; inversion F; subst. eapply its_execute_mono; eauto.
    - destruct (interchain_transfer H w1 c token_id dest_chain dest_addr metadata gas) as [[w3 ev3]|] eqn:X; inversion F; subst.
      unfold interchain_transfer in X. inv_some X. apply transmit_its in X. its_eq. apply tms_mono_same_its. congruence.
    - destruct (call_contract_with_token H w1 c token_id dest_chain dest_addr data gas) as [[w3 ev3]|] eqn:X; inversion F; subst.
      unfold call_contract_with_token in X. inv_some X. apply transmit_its in X. its_eq. apply tms_mono_same_its. congruence.
    - destruct (register_token_metadata w1 c token) as [[w3 ev3]|] eqn:X; inversion F; subst.
      unfold register_token_metadata in X. inv_some X. inversion X; subst. same.
    - unfold deploy_interchain_token_ep in F. inv_some F; inversion F; subst; try same.
      all: try (match goal with D : deploy_token_raw _ _ _ _ _ _ _ _ _ _ = Some _ |- _ => apply deploy_token_raw_mono in D; exact D end).
      all: its_eq; apply tms_mono_same_its; congruence.
    - destruct (approve_remote H w1 c deployer salt dest_chain dest_minter) as [[w3 ev3]|] eqn:X; inversion F; subst.
      apply approve_remote_spec in X as (_ & _ & ->). same.
    - destruct (revoke_remote H w1 c deployer salt dest_chain) as [[w3 ev3]|] eqn:X; inversion F; subst.
      apply revoke_remote_spec in X. subst. same.
    - unfold deploy_remote_with_minter in F. inv_some F.
      + apply remote_raw_mono in F. eapply tms_mono_trans; [|exact F]. same.
      + eapply remote_raw_mono; eauto.
      + eapply remote_raw_mono; eauto.
    - unfold register_canonical in F. inv_some F. eapply register_custom_raw_mono; eauto.
    - unfold deploy_remote_canonical in F. inv_some F. eapply remote_raw_mono; eauto.
    - unfold register_custom_token in F. inv_some F. eapply register_custom_raw_mono; eauto.
    - unfold link_token in F. inv_some F. inversion F; subst.
      match goal with Hx : route_message _ _ _ _ _ _ _ = Some _ |- _ => apply route_message_its in Hx; apply tms_mono_same_its; rewrite Hx; reflexivity end.
    - destruct (set_flow_limits w1 c ids limits) as [[w3 ev3]|] eqn:X; inversion F; subst.
      unfold set_flow_limits in X. inv_some X. inversion X; subst. its_eq. apply tms_mono_same_its. congruence.
    - destruct (set_trusted_address w1 c chain a) as [[w3 ev3]|] eqn:X; inversion F; subst.
      unfold set_trusted_address in X. inv_some X. inversion X; subst. same.
    - destruct (remove_trusted_address w1 c chain) as [[w3 ev3]|] eqn:X; inversion F; subst.
      unfold remove_trusted_address in X. inv_some X. inversion X; subst. same.
    - destruct (pause_ep w1 c b) as [[w3 ev3]|] eqn:X; inversion F; subst.
      apply pause_spec in X as (_ & -> & _). same.
    - destruct (its_transfer_operatorship w1 c a) as [[w3 ev3]|] eqn:X; inversion F; subst.
      unfold its_transfer_operatorship in X. inv_some X. inversion X; subst. same.
    - destruct (its_propose_operatorship w1 c a) as [[w3 ev3]|] eqn:X; inversion F; subst.
      unfold its_propose_operatorship in X. inv_some X. inversion X; subst. same.
    - destruct (its_accept_operatorship w1 c from) as [[w3 ev3]|] eqn:X; inversion F; subst.
      unfold its_accept_operatorship in X. inv_some X. inversion X; subst. same.
    - destruct (get_tm w tma) as [t|]; [|same].
      destruct o; try same; destruct (tstep t (iw_led w) _) as [[t' l'] out]; try same.
      cbn [fst]. destruct (to_ok out); same.
    - destruct (find_ip id (iw_pend w)) as [p|]; [|same].
      destruct (ip_kind p); try same. destruct (ip_stage p); try same.
      destruct (if ok then _ else _); same.
    - destruct (find_ip id (iw_pend w)) as [p|]; [|same].
      destruct (ip_kind p); try same. destruct (ip_stage p) as [|ok]; try same.
      destruct (transfer_callback H _ c chain id0 src ph token_id tok amount ok) as [[w1 ev1]|] eqn:T; cbn [fst]; [|same].
      unfold transfer_callback in T. destruct ok.
      + inv_some T. inversion T; subst. its_eq. apply tms_mono_same_its. rewrite E. reflexivity.
      + inv_some T. inversion T; subst. its_eq. apply tms_mono_same_its. rewrite E. reflexivity.
    - destruct (find_ip id (iw_pend w)) as [p|]; [|same].
      destruct (ip_kind p); try same.
      + destruct (metadata_callback H _ c tok gas caller res) as [[w1 ev1]|] eqn:T; cbn [fst]; [|same].
        unfold metadata_callback in T. inv_some T; try (inversion T; subst; same).
        all: try (apply call_contract_mono in T; apply tms_mono_same_its; rewrite T; reflexivity).
      + destruct (remote_callback H _ c deploy_salt dest_chain symbol minter gas caller res) as [[w1 ev1]|] eqn:T; cbn [fst]; [|same].
        unfold remote_callback in T. inv_some T; try (inversion T; subst; same).
        all: try (apply deploy_token_raw_mono in T; eapply tms_mono_trans; [|exact T]; same).
    - destruct (find_ip id (iw_pend w)) as [p|]; [|same].
      destruct (ip_kind p); try same. destruct (get_tm w tm) as [t|]; [|same].
      destruct (tstep t (iw_led w) _) as [[t' l'] out]. same.
  Qed.

  Theorem irun_tms_mono ops : forall w, tms_mono w (irun H verify w ops).
  Proof.
    induction ops as [|o r IH]; intro w; [apply tms_mono_refl|].
    change (irun H verify w (o :: r)) with (irun H verify (fst (istep H verify w o)) r).
    eapply tms_mono_trans; [apply istep_tms_mono | apply IH].
  Qed.
End P.
