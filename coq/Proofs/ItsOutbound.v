(* C05, conservation clause at the level of the ITS world: a successful outbound transfer
   (interchainTransfer / callContractWithInterchainToken, the whole transaction including the attached
   payments) leaves every balance of the service itself unchanged: what the caller attached is exactly
   what the service passes on to the token manager (transfer amount) and to the gas service (gas value).
   Hypotheses: the service is neither the caller, nor the token manager, nor the gas service; no payment
   uses the EGLD-000000 alias (the model keeps it apart from native EGLD; see DESIGN 10). *)
From Coq Require Import String List NArith Lia Bool.
From Ax Require Import Lib.Bytes Lib.Mvx Lib.SolAbi Model.Check Model.Env Model.Gateway Model.TokenManager Model.Its
     Proofs.TMFacts.
Import ListNotations.
Open Scope N_scope.

(* what a call value carries of ledger token t *)
Fixpoint recv_esdts (ps : list esdt_pay) (t : bytes) : N :=
  match ps with [] => 0 | p :: r => (if bytes_eqb (ltok (ep_token p) (ep_nonce p)) t then ep_amount p else 0) + recv_esdts r t end.
Definition recv (v : callvalue) (t : bytes) : N :=
  match cv_esdt v with [] => if bytes_eqb EGLD t then cv_egld v else 0 | ps => recv_esdts ps t end.

Lemma transfer_bal l a b t v l' x : a <> b -> transfer l a b t v = Some l' ->
  (if bytes_eqb t x then v else 0) <= bal l a x /\
  bal l' a x = bal l a x - (if bytes_eqb t x then v else 0) /\
  bal l' b x = bal l b x + (if bytes_eqb t x then v else 0) /\
  (forall c, c <> a -> c <> b -> bal l' c x = bal l c x).
Proof.
  intros ne T. apply transfer_spec in T as (Le & A & B & O); [|exact ne].
  destruct (bytes_eqb t x) eqn:E.
  - apply bytes_eqb_eq in E. subst x. repeat split; try assumption. intros c n1 n2. apply O; congruence.
  - apply bytes_eqb_neq in E. repeat split.
    + lia.
    + rewrite O; [lia | congruence | congruence].
    + rewrite O; [lia | congruence | congruence].
    + intros c n1 n2. apply O; congruence.
Qed.

Lemma pay_esdts_bal ps : forall l a b l1 x, a <> b -> pay_esdts l a b ps = Some l1 ->
  recv_esdts ps x <= bal l a x /\ bal l1 a x = bal l a x - recv_esdts ps x /\ bal l1 b x = bal l b x + recv_esdts ps x /\
  (forall c, c <> a -> c <> b -> bal l1 c x = bal l c x).
Proof.
  induction ps as [|p r IH]; intros l a b l1 x ne P; cbn [pay_esdts recv_esdts] in *.
  - inversion P; subst. repeat split; try lia; auto.
  - destruct (transfer l a b (ltok (ep_token p) (ep_nonce p)) (ep_amount p)) as [l2|] eqn:T; [|discriminate].
    apply (transfer_bal _ _ _ _ _ _ x ne) in T as (T1 & T2 & T3 & T4).
    apply (IH _ _ _ _ x ne) in P as (P1 & P2 & P3 & P4).
    repeat split; try lia. intros c n1 n2. rewrite P4, T4; auto.
Qed.

Lemma pay_in_bal l a b v l1 x : a <> b -> pay_in l a b v = Some l1 ->
  recv v x <= bal l a x /\ bal l1 a x = bal l a x - recv v x /\ bal l1 b x = bal l b x + recv v x /\
  (forall c, c <> a -> c <> b -> bal l1 c x = bal l c x).
Proof.
  intros ne. unfold pay_in, recv. destruct (cv_esdt v) as [|p r] eqn:E.
  - intro T. apply (transfer_bal _ _ _ _ _ _ x ne) in T. exact T.
  - destruct (cv_egld v =? 0); [|discriminate]. apply pay_esdts_bal. exact ne.
Qed.

(* takeToken touches no balance of any account other than the manager *)
Lemma take_token_frame t l c t' l' rets logs a x : take_token t l c = Some (t', l', rets, logs) -> a <> t_self c -> bal l' a x = bal l a x.
Proof.
  unfold take_token. destruct (negb (only_service t c)); [discriminate|].
  destruct (egld_or_single_fungible (t_value c)) as [[tok amt]|]; [|discriminate].
  destruct (negb (bytes_eqb tok (tm_token t))); [discriminate|].
  destruct (add_flow_out t (t_now c) amt); [|discriminate].
  destruct (is_mint_type (tm_type t)).
  - destruct (bytes_eqb tok EGLD); [discriminate|].
    destruct (debit l (t_self c) tok amt) as [l2|] eqn:D; [|discriminate].
    intros R ne. inversion R; subst. apply debit_spec in D as (_ & D). rewrite D, pair_eqb_false by congruence. reflexivity.
  - intros R _. inversion R; subst. reflexivity.
Qed.

Section ItsOutbound.
  Variable H : bytes -> bytes.
  Variable verify : bytes -> bytes -> bytes -> bool.

  Definition no_egld_alias (v : callvalue) : Prop := Forall (fun p => ep_token p <> EGLD_ESDT) (cv_esdt v).

  (* the split accounts for everything attached *)
  Lemma split_payment_recv v gas tok amount gtok g x : no_egld_alias v ->
    split_payment v gas = Some (tok, amount, gtok, g) ->
    g = gas /\ recv v x = (if bytes_eqb tok x then amount else 0) + (if bytes_eqb gtok x then gas else 0).
  Proof.
    intros NA. unfold split_payment, recv. destruct (cv_esdt v) as [|p [|q [|z r]]] eqn:E.
    - destruct (N.ltb_spec gas (cv_egld v)); [|discriminate]. intro R; inversion R; subst. split; [reflexivity|].
      destruct (bytes_eqb EGLD x); lia.
    - destruct (N.eqb_spec (ep_nonce p) 0) as [Z|]; [|discriminate]. cbn [negb].
      destruct (N.ltb_spec gas (ep_amount p)); [|discriminate]. intro R; inversion R; subst. split; [reflexivity|].
      cbn [recv_esdts]. rewrite Z, ltok_0. destruct (bytes_eqb (ep_token p) x); lia.
    - destruct (N.eqb_spec (ep_nonce p) 0) as [Zp|]; [|discriminate].
      destruct (N.eqb_spec (ep_nonce q) 0) as [Zq|]; [|discriminate]. cbn [negb orb].
      destruct (N.eqb_spec (ep_amount q) gas) as [G|]; [|discriminate]. cbn [negb].
      intro R; inversion R; subst. split; [reflexivity|].
      unfold no_egld_alias in NA. rewrite E in NA. inversion NA as [|? ? _ NA2]; subst. inversion NA2 as [|? ? Nq _]; subst.
      apply bytes_eqb_neq in Nq. rewrite Nq.
      cbn [recv_esdts]. rewrite Zp, Zq, !ltok_0. lia.
    - discriminate.
  Qed.

  Lemma call_tm_take_bal w c token_id tok amount w' x :
    call_tm_take w c token_id tok amount = Some w' -> tm_addr (iw_its w) token_id <> ic_self c ->
    (if bytes_eqb tok x then amount else 0) <= bal (iw_led w) (ic_self c) x /\
    bal (iw_led w') (ic_self c) x = bal (iw_led w) (ic_self c) x - (if bytes_eqb tok x then amount else 0) /\
    iw_its w' = iw_its w.
  Proof.
    unfold call_tm_take. cbv zeta. destruct (bytes_eqb (tm_addr (iw_its w) token_id) []); [discriminate|].
    destruct (get_tm w (tm_addr (iw_its w) token_id)) as [t|]; [|discriminate].
    set (v := if bytes_eqb tok EGLD then _ else _).
    destruct (pay_in (iw_led w) (ic_self c) (tm_addr (iw_its w) token_id) v) as [l1|] eqn:P; [|discriminate].
    destruct (take_token t l1 (tm_ctx c (tm_addr (iw_its w) token_id) v)) as [[[[t' l'] rets] logs]|] eqn:T; [|discriminate].
    intros R ne. inversion R; subst; clear R. cbn [iw_led iw_its w_led_ w_tm wset].
    apply (pay_in_bal _ _ _ _ _ x) in P as (P1 & P2 & _ & _); [|congruence].
    rewrite (take_token_frame _ _ _ _ _ _ _ (ic_self c) x T) by (cbn [t_self tm_ctx]; congruence).
    assert (Rv : recv v x = if bytes_eqb tok x then amount else 0).
    { subst v. unfold recv. destruct (bytes_eqb tok EGLD) eqn:E; cbn [cv_esdt cv_egld].
      - apply bytes_eqb_eq in E. subst tok. reflexivity.
      - cbn [recv_esdts ep_token ep_nonce ep_amount]. rewrite ltok_0. lia. }
    rewrite Rv in *. auto.
  Qed.

  Lemma call_contract_bal w c dc da p gtok gas w' ev x :
    call_contract H w c dc da p gtok gas = Some (w', ev) -> i_gas (iw_its w) <> ic_self c ->
    (if bytes_eqb gtok x then gas else 0) <= bal (iw_led w) (ic_self c) x /\
    bal (iw_led w') (ic_self c) x = bal (iw_led w) (ic_self c) x - (if bytes_eqb gtok x then gas else 0).
  Proof.
    unfold call_contract. cbv zeta. destruct (bytes_eqb da []); [discriminate|].
    destruct (N.eqb_spec gas 0) as [Z|NZ].
    - intros R _. inversion R; subst. cbn [iw_led w_led_ wset]. destruct (bytes_eqb gtok x); lia.
    - destruct (transfer (iw_led w) (ic_self c) (i_gas (iw_its w)) gtok gas) as [l'|] eqn:T; [|discriminate].
      intros R ne. inversion R; subst. cbn [iw_led w_led_ wset].
      apply (transfer_bal _ _ _ _ _ _ x) in T as (T1 & T2 & _); [|congruence]. auto.
  Qed.

  Lemma transmit_bal w c t dc da am gtok gas d w' ev x :
    transmit H w c t dc da am gtok gas d = Some (w', ev) -> i_gas (iw_its w) <> ic_self c ->
    (if bytes_eqb gtok x then gas else 0) <= bal (iw_led w) (ic_self c) x /\
    bal (iw_led w') (ic_self c) x = bal (iw_led w) (ic_self c) x - (if bytes_eqb gtok x then gas else 0).
  Proof.
    unfold transmit. destruct (bytes_eqb da []); [discriminate|]. destruct (am =? 0); [discriminate|].
    destruct (enc_impl _) as [payload|]; [|discriminate]. unfold route_message.
    destruct (route_out (iw_its w) dc payload) as [[[dc' da'] p']|]; [|discriminate].
    apply call_contract_bal.
  Qed.

  (* the body of either endpoint after the attached payments have arrived *)
  Lemma outbound_body_bal w c token_id gas tok amount gtok g w1 w' ev dc da d x :
    no_egld_alias (ic_value c) ->
    split_payment (ic_value c) gas = Some (tok, amount, gtok, g) ->
    call_tm_take w c token_id tok amount = Some w1 ->
    transmit H w1 c token_id dc da amount gtok g d = Some (w', ev) ->
    tm_addr (iw_its w) token_id <> ic_self c -> i_gas (iw_its w) <> ic_self c ->
    recv (ic_value c) x <= bal (iw_led w) (ic_self c) x ->
    bal (iw_led w') (ic_self c) x = bal (iw_led w) (ic_self c) x - recv (ic_value c) x.
  Proof.
    intros NA S T X n1 n2 Le.
    apply (split_payment_recv _ _ _ _ _ _ x NA) in S as (-> & Rv).
    apply (call_tm_take_bal _ _ _ _ _ _ x) in T as (T1 & T2 & Ti); [|exact n1].
    apply (transmit_bal _ _ _ _ _ _ _ _ _ _ _ x) in X as (X1 & X2); [|rewrite Ti; exact n2].
    lia.
  Qed.

  Theorem outbound_keeps_service_balances w o : forall c token_id,
    (exists dc da md gas, o = ITransfer c token_id dc da md gas) \/ (exists dc da d gas, o = ICallContract c token_id dc da d gas) ->
    io_ok (snd (istep H verify w o)) = true ->
    no_egld_alias (ic_value c) ->
    ic_caller c <> ic_self c -> tm_addr (iw_its w) token_id <> ic_self c -> i_gas (iw_its w) <> ic_self c ->
    forall x, bal (iw_led (fst (istep H verify w o))) (ic_self c) x = bal (iw_led w) (ic_self c) x.
  Proof.
    intros c token_id Ho Ok NA n0 n1 n2 x.
    assert (K : forall f, io_ok (snd (itx w c f)) = true ->
              (forall w1 r, iw_its w1 = iw_its w -> recv (ic_value c) x <= bal (iw_led w1) (ic_self c) x ->
                 f w1 = Some r -> bal (iw_led (fst (fst r))) (ic_self c) x = bal (iw_led w1) (ic_self c) x - recv (ic_value c) x) ->
              bal (iw_led (fst (itx w c f))) (ic_self c) x = bal (iw_led w) (ic_self c) x).
    { intros f Okf Hf. unfold itx in *.
      destruct (pay_in (iw_led w) (ic_caller c) (ic_self c) (ic_value c)) as [l1|] eqn:P; [|discriminate].
      destruct (f (w_led_ w l1)) as [[[w' rets] ev]|] eqn:F; [|discriminate]. cbn [fst].
      apply (pay_in_bal _ _ _ _ _ x n0) in P as (_ & _ & P3 & _).
      specialize (Hf (w_led_ w l1) (w', rets, ev) eq_refl). cbn [iw_led w_led_ wset fst] in Hf.
      rewrite Hf; [lia | lia | exact F]. }
    destruct Ho as [(dc & da & md & gas & ->)|(dc & da & d & gas & ->)]; cbn [istep] in *.
    - apply K; [exact Ok|]. intros w1 r Ei Le F. unfold norets in F.
      destruct (interchain_transfer H w1 c token_id dc da md gas) as [[w' ev]|] eqn:X; inversion F; subst; clear F. cbn [fst].
      unfold interchain_transfer in X. destruct (negb _); [discriminate|]. destruct (i_paused _); [discriminate|].
      destruct (split_payment (ic_value c) gas) as [[[[tok amount] gtok] g]|] eqn:S; [|discriminate].
      destruct (call_tm_take w1 c token_id tok amount) as [w2|] eqn:T; [|discriminate].
      destruct (decode_metadata md) as [data|]; [|discriminate].
      eapply outbound_body_bal; eauto; rewrite Ei; assumption.
    - apply K; [exact Ok|]. intros w1 r Ei Le F. unfold norets in F.
      destruct (call_contract_with_token H w1 c token_id dc da d gas) as [[w' ev]|] eqn:X; inversion F; subst; clear F. cbn [fst].
      unfold call_contract_with_token in X. destruct (negb _); [discriminate|]. destruct (i_paused _); [discriminate|].
      destruct (bytes_eqb d []); [discriminate|].
      destruct (split_payment (ic_value c) gas) as [[[[tok amount] gtok] g]|] eqn:S; [|discriminate].
      destruct (call_tm_take w1 c token_id tok amount) as [w2|] eqn:T; [|discriminate].
      eapply outbound_body_bal; eauto; rewrite Ei; assumption.
  Qed.

  (* and the caller pays exactly what was attached *)
  Theorem outbound_caller_pays w o : forall c token_id,
    (exists dc da md gas, o = ITransfer c token_id dc da md gas) \/ (exists dc da d gas, o = ICallContract c token_id dc da d gas) ->
    io_ok (snd (istep H verify w o)) = true ->
    exists l1, pay_in (iw_led w) (ic_caller c) (ic_self c) (ic_value c) = Some l1.
  Proof.
    intros c token_id Ho Ok.
    destruct Ho as [(dc & da & md & gas & ->)|(dc & da & d & gas & ->)]; cbn [istep] in Ok; unfold itx in Ok;
      destruct (pay_in (iw_led w) (ic_caller c) (ic_self c) (ic_value c)) as [l1|]; try discriminate; eauto.
  Qed.
End ItsOutbound.
