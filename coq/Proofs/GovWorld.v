(* C11 / C12 / C16 at the level of the governance world: every operation, every schedule. *)
From Coq Require Import String Ascii.
From Coq Require Import List Arith NArith Lia Bool.
From Coq Require Import Init.Byte Strings.Byte.
From Ax Require Import Lib.Bytes Lib.Mvx Lib.Keccak Model.Check Model.Env Model.Gateway Model.Governance
     Proofs.AListFacts Proofs.GatewayMsgs Proofs.TMFacts Proofs.GovFacts.
Import ListNotations.
Open Scope N_scope.

Section P.
  Variable H : bytes -> bytes.
  Variable verify : bytes -> bytes -> bytes -> bool.
  Notation phash := (proposal_hash H).
  Notation step := (vstep H verify true).

  Lemma run_tx_some w c f w' out : run_tx w c f = (w', out) -> vo_ok out = true ->
    exists l1 ev, pay_in (w_led w) (x_caller c) (x_self c) (x_value c) = Some l1 /\
      f {| w_gw := w_gw w; w_gov := w_gov w; w_led := l1; w_pend := w_pend w; w_next := w_next w |} = Some (w', ev) /\ vo_logs out = ev.
  Proof.
    unfold run_tx. destruct (pay_in _ _ _ _) as [l1|]; [|intro E; inversion E; subst; discriminate].
    destruct (f _) as [[w1 ev]|] eqn:F; intro E; inversion E; subst; [|discriminate]. intros _. exists l1, ev. auto.
  Qed.

  Lemma run_tx_fail w c f w' out : run_tx w c f = (w', out) -> vo_ok out = false -> w' = w.
  Proof.
    unfold run_tx. destruct (pay_in _ _ _ _) as [l1|]; [|intro E; inversion E; reflexivity].
    destruct (f _) as [[w1 ev]|]; intro E; inversion E; subst; [discriminate | reflexivity].
  Qed.

  (* the governance tables of a world *)
  Definition tables (w : gworld) := (gv_eta (w_gov w), gv_tl_flight (w_gov w), gv_approvals (w_gov w), gv_op_flight (w_gov w)).

  Definition is_schedule_of (o : vop) (h : bytes) : Prop :=
    exists c chain id src payload p, o = VExecute c chain id src payload /\ dec_exec_payload payload = Some p /\
      xp_cmd p = 0 /\ phash (xp_target p) (xp_call_data p) (xp_value p) = h.
  Definition is_approve_of (o : vop) (h : bytes) : Prop :=
    exists c chain id src payload p, o = VExecute c chain id src payload /\ dec_exec_payload payload = Some p /\
      xp_cmd p = 2 /\ phash (xp_target p) (xp_call_data p) (xp_value p) = h.

  (* cancelled (or never scheduled) and not in flight *)
  Definition Dead (w : gworld) (h : bytes) : Prop := getN (gv_eta (w_gov w)) h = 0 /\ getN (gv_tl_flight (w_gov w)) h = 0.
  Definition DeadOp (w : gworld) (h : bytes) : Prop := getN (gv_approvals (w_gov w)) h = 0 /\ getN (gv_op_flight (w_gov w)) h = 0.

  Lemma find_pending_in id ps p : find_pending id ps = Some p -> In p ps.
  Proof. induction ps as [|q r IH]; cbn; [discriminate|]. destruct (gp_id q =? id); [intro E; inversion E; auto | auto]. Qed.

  (* ---------- C11: a cancelled proposal stays dead until it is scheduled again ---------- *)
  Theorem dead_preserved w o h : Dead w h -> ~ is_schedule_of o h -> Dead (fst (step w o)) h.
  Proof.
    intros [D1 D2] NS. unfold Dead.
    destruct o as [go|c chain id src payload|c t cd v|c t cd v|c r a|c a|c tok nonce|self id ok rets|self id]; cbn [vstep].
    - destruct (gstep H verify (w_gw w) go) as [g' r]. cbn. auto.
    - destruct (run_tx w c _) as [w' out] eqn:R. cbn [fst]. destruct (vo_ok out) eqn:O.
      + apply run_tx_some in R as (l1 & ev & _ & F & _); [|exact O].
        apply gov_execute_spec in F as (_ & _ & _ & _ & _ & _ & _ & p & g' & ev' & Dp & _ & PC & Eg). cbn [w_gov] in PC.
        rewrite Eg. apply process_command_spec in PC. cbv zeta in PC. destruct PC as (_ & _ & Foth & Fcmd).
        destruct (bytes_dec (phash (xp_target p) (xp_call_data p) (xp_value p)) h) as [Eh|Nh].
        * rewrite Eh in *. destruct (N.eqb_spec (xp_cmd p) 0) as [C0|C0].
          -- exfalso. apply NS. exists c, chain, id, src, payload, p. auto.
          -- destruct (N.eqb_spec (xp_cmd p) 1) as [C1|C1].
             ++ destruct Fcmd as (A & B & _). auto.
             ++ destruct (N.eqb_spec (xp_cmd p) 2) as [C2|C2].
                ** destruct Fcmd as (_ & A & B & _). rewrite A, B. auto.
                ** destruct Fcmd as (_ & _ & A & B). rewrite A, B. auto.
        * destruct (Foth h (not_eq_sym Nh)) as (A & B & _). rewrite A, B. auto.
      + apply run_tx_fail in R; [|exact O]. subst. auto.
    - destruct (run_tx w c _) as [w' out] eqn:R. cbn [fst]. destruct (vo_ok out) eqn:O.
      + apply run_tx_some in R as (l1 & ev & _ & F & _); [|exact O].
        apply execute_proposal_spec in F. cbv zeta in F. cbn [w_gov] in F.
        destruct F as (NZ & _ & _ & _ & _ & _ & _ & _ & Foth & _).
        destruct (bytes_dec (phash t cd v) h) as [Eh|Nh]; [rewrite Eh in NZ; contradiction|].
        destruct (Foth h (not_eq_sym Nh)) as (A & B). rewrite A, B. auto.
      + apply run_tx_fail in R; [|exact O]. subst. auto.
    - destruct (run_tx w c _) as [w' out] eqn:R. cbn [fst]. destruct (vo_ok out) eqn:O.
      + apply run_tx_some in R as (l1 & ev & _ & F & _); [|exact O].
        apply execute_operator_proposal_spec in F. cbv zeta in F. cbn [w_gov] in F.
        destruct F as (_ & _ & _ & _ & A & B & _). rewrite A, B. auto.
      + apply run_tx_fail in R; [|exact O]. subst. auto.
    - destruct (run_tx w c _) as [w' out] eqn:R. cbn [fst]. destruct (vo_ok out) eqn:O.
      + apply run_tx_some in R as (l1 & ev & _ & F & _); [|exact O]. unfold gov_withdraw in F.
        destruct (negb _ || negb _); [discriminate|]. destruct (negb _); [discriminate|].
        destruct (transfer _ _ _ _ _); inversion F; subst. cbn. auto.
      + apply run_tx_fail in R; [|exact O]. subst. auto.
    - destruct (run_tx w c _) as [w' out] eqn:R. cbn [fst]. destruct (vo_ok out) eqn:O.
      + apply run_tx_some in R as (l1 & ev & _ & F & _); [|exact O]. unfold gov_transfer_operatorship in F.
        destruct (negb _ || negb _); [discriminate|]. destruct (negb _); [discriminate|].
        destruct (bytes_eqb a zero32); inversion F; subst. cbn. auto.
      + apply run_tx_fail in R; [|exact O]. subst. auto.
    - destruct (run_tx w c _) as [w' out] eqn:R. cbn [fst]. destruct (vo_ok out) eqn:O.
      + apply run_tx_some in R as (l1 & ev & _ & F & _); [|exact O]. unfold gov_withdraw_refund in F.
        destruct (negb _); [discriminate|]. cbn [w_gov] in F.
        destruct (refund_of _ _ _ _ =? 0); [inversion F; subst; cbn; auto|].
        destruct (transfer _ _ _ _ _); inversion F; subst. cbn. auto.
      + apply run_tx_fail in R; [|exact O]. subst. auto.
    - destruct (find_pending id (w_pend w)) as [p|]; [|cbn; auto]. destruct (gp_stage p); [|cbn; auto].
      destruct (if ok then _ else _); cbn; auto.
    - destruct (find_pending id (w_pend w)) as [p|]; [|cbn; auto]. destruct (gp_stage p) as [|ok rets]; [cbn; auto|].
      destruct (callback true self (w_gov w) p ok rets) as [g' ev] eqn:CB. cbn [fst w_gov].
      apply callback_spec in CB. cbv zeta in CB. destruct CB as (_ & _ & K).
      destruct (gp_kind p).
      + destruct K as (_ & _ & F0 & Foth & Fe).
        destruct (bytes_dec (gp_hash p) h) as [Eh|Nh].
        * rewrite Eh in *. rewrite Fe, F0, D2. cbn [N.eqb]. destruct ok; auto.
        * destruct (Foth h (not_eq_sym Nh)) as (A & B). rewrite A, B. auto.
      + destruct K as (A & B & _). rewrite A, B. auto.
  Qed.

  Theorem dead_no_dispatch w c t cd v : Dead w (phash t cd v) -> vo_ok (snd (step w (VExecProposal c t cd v))) = false.
  Proof.
    intros [D1 _]. cbn [vstep]. destruct (run_tx w c _) as [w' out] eqn:R. cbn [snd].
    destruct (vo_ok out) eqn:O; [|reflexivity]. exfalso.
    apply run_tx_some in R as (l1 & ev & _ & F & _); [|exact O].
    apply execute_proposal_spec in F. cbv zeta in F. cbn [w_gov] in F. destruct F as (NZ & _). contradiction.
  Qed.

  (* for all schedules: after a proposal is dead (e.g. right after an accepted cancel command), no
     sequence of operations without a new schedule command for it makes it dispatchable *)
  Theorem cancelled_stays_cancelled ops : forall w h,
    Dead w h -> Forall (fun o => ~ is_schedule_of o h) ops -> Dead (vrun H verify true w ops) h.
  Proof.
    induction ops as [|o r IH]; intros w h D F; [exact D|].
    inversion F as [|? ? Ho Hr]; subst. change (vrun H verify true w (o :: r)) with (vrun H verify true (fst (step w o)) r).
    apply IH; [apply dead_preserved; assumption | exact Hr].
  Qed.

  (* an accepted cancel command makes the proposal dead, even while its dispatch is in flight *)
  Theorem cancel_kills w c chain id src payload p :
    dec_exec_payload payload = Some p -> xp_cmd p = 1 ->
    vo_ok (snd (step w (VExecute c chain id src payload))) = true ->
    Dead (fst (step w (VExecute c chain id src payload))) (phash (xp_target p) (xp_call_data p) (xp_value p)).
  Proof.
    intros Dp C1. cbn [vstep]. destruct (run_tx w c _) as [w' out] eqn:R. cbn [fst snd]. intro O.
    apply run_tx_some in R as (l1 & ev & _ & F & _); [|exact O].
    apply gov_execute_spec in F as (_ & _ & _ & _ & _ & _ & _ & p' & g' & ev' & Dp' & _ & PC & Eg).
    rewrite Dp in Dp'. inversion Dp'; subst p'. unfold Dead. rewrite Eg.
    apply process_command_spec in PC. cbv zeta in PC. destruct PC as (_ & _ & _ & Fcmd). rewrite C1 in Fcmd. cbn in Fcmd.
    destruct Fcmd as (A & B & _). auto.
  Qed.

  (* ---------- C12: operator approvals: the same for cancel-approval ---------- *)
  Theorem deadop_preserved w o h : DeadOp w h -> ~ is_approve_of o h -> DeadOp (fst (step w o)) h.
  Proof.
    intros [D1 D2] NS. unfold DeadOp.
    destruct o as [go|c chain id src payload|c t cd v|c t cd v|c r a|c a|c tok nonce|self id ok rets|self id]; cbn [vstep].
    - destruct (gstep H verify (w_gw w) go) as [g' r]. cbn. auto.
    - destruct (run_tx w c _) as [w' out] eqn:R. cbn [fst]. destruct (vo_ok out) eqn:O.
      + apply run_tx_some in R as (l1 & ev & _ & F & _); [|exact O].
        apply gov_execute_spec in F as (_ & _ & _ & _ & _ & _ & _ & p & g' & ev' & Dp & _ & PC & Eg). cbn [w_gov] in PC.
        rewrite Eg. apply process_command_spec in PC. cbv zeta in PC. destruct PC as (_ & _ & Foth & Fcmd).
        destruct (bytes_dec (phash (xp_target p) (xp_call_data p) (xp_value p)) h) as [Eh|Nh].
        * rewrite Eh in *. destruct (N.eqb_spec (xp_cmd p) 0) as [C0|C0].
          -- destruct Fcmd as (_ & _ & _ & _ & _ & A & B). rewrite A, B. auto.
          -- destruct (N.eqb_spec (xp_cmd p) 1) as [C1|C1].
             ++ destruct Fcmd as (_ & _ & A & B). rewrite A, B. auto.
             ++ destruct (N.eqb_spec (xp_cmd p) 2) as [C2|C2].
                ** exfalso. apply NS. exists c, chain, id, src, payload, p. auto.
                ** destruct Fcmd as (A & B & _). auto.
        * destruct (Foth h (not_eq_sym Nh)) as (_ & _ & A & B). rewrite A, B. auto.
      + apply run_tx_fail in R; [|exact O]. subst. auto.
    - destruct (run_tx w c _) as [w' out] eqn:R. cbn [fst]. destruct (vo_ok out) eqn:O.
      + apply run_tx_some in R as (l1 & ev & _ & F & _); [|exact O].
        apply execute_proposal_spec in F. cbv zeta in F. cbn [w_gov] in F.
        destruct F as (_ & _ & _ & _ & A & B & _). rewrite A, B. auto.
      + apply run_tx_fail in R; [|exact O]. subst. auto.
    - destruct (run_tx w c _) as [w' out] eqn:R. cbn [fst]. destruct (vo_ok out) eqn:O.
      + apply run_tx_some in R as (l1 & ev & _ & F & _); [|exact O].
        apply execute_operator_proposal_spec in F. cbv zeta in F. cbn [w_gov] in F.
        destruct F as (_ & NZ & _ & _ & _ & _ & _ & _ & Foth & _).
        destruct (bytes_dec (phash t cd v) h) as [Eh|Nh]; [rewrite Eh in NZ; contradiction|].
        destruct (Foth h (not_eq_sym Nh)) as (A & B). rewrite A, B. auto.
      + apply run_tx_fail in R; [|exact O]. subst. auto.
    - destruct (run_tx w c _) as [w' out] eqn:R. cbn [fst]. destruct (vo_ok out) eqn:O.
      + apply run_tx_some in R as (l1 & ev & _ & F & _); [|exact O]. unfold gov_withdraw in F.
        destruct (negb _ || negb _); [discriminate|]. destruct (negb _); [discriminate|].
        destruct (transfer _ _ _ _ _); inversion F; subst. cbn. auto.
      + apply run_tx_fail in R; [|exact O]. subst. auto.
    - destruct (run_tx w c _) as [w' out] eqn:R. cbn [fst]. destruct (vo_ok out) eqn:O.
      + apply run_tx_some in R as (l1 & ev & _ & F & _); [|exact O]. unfold gov_transfer_operatorship in F.
        destruct (negb _ || negb _); [discriminate|]. destruct (negb _); [discriminate|].
        destruct (bytes_eqb a zero32); inversion F; subst. cbn. auto.
      + apply run_tx_fail in R; [|exact O]. subst. auto.
    - destruct (run_tx w c _) as [w' out] eqn:R. cbn [fst]. destruct (vo_ok out) eqn:O.
      + apply run_tx_some in R as (l1 & ev & _ & F & _); [|exact O]. unfold gov_withdraw_refund in F.
        destruct (negb _); [discriminate|]. cbn [w_gov] in F.
        destruct (refund_of _ _ _ _ =? 0); [inversion F; subst; cbn; auto|].
        destruct (transfer _ _ _ _ _); inversion F; subst. cbn. auto.
      + apply run_tx_fail in R; [|exact O]. subst. auto.
    - destruct (find_pending id (w_pend w)) as [p|]; [|cbn; auto]. destruct (gp_stage p); [|cbn; auto].
      destruct (if ok then _ else _); cbn; auto.
    - destruct (find_pending id (w_pend w)) as [p|]; [|cbn; auto]. destruct (gp_stage p) as [|ok rets]; [cbn; auto|].
      destruct (callback true self (w_gov w) p ok rets) as [g' ev] eqn:CB. cbn [fst w_gov].
      apply callback_spec in CB. cbv zeta in CB. destruct CB as (_ & _ & K).
      destruct (gp_kind p).
      + destruct K as (A & B & _). rewrite A, B. auto.
      + destruct K as (_ & _ & F0 & Foth & Fe).
        destruct (bytes_dec (gp_hash p) h) as [Eh|Nh].
        * rewrite Eh in *. rewrite Fe, F0, D2. cbn [N.eqb]. destruct ok; auto.
        * destruct (Foth h (not_eq_sym Nh)) as (A & B). rewrite A, B. auto.
  Qed.

  Theorem cancelled_approval_stays_cancelled ops : forall w h,
    DeadOp w h -> Forall (fun o => ~ is_approve_of o h) ops -> DeadOp (vrun H verify true w ops) h.
  Proof.
    induction ops as [|o r IH]; intros w h D F; [exact D|].
    inversion F as [|? ? Ho Hr]; subst. change (vrun H verify true w (o :: r)) with (vrun H verify true (fst (step w o)) r).
    apply IH; [apply deadop_preserved; assumption | exact Hr].
  Qed.

  Theorem deadop_no_dispatch w c t cd v : DeadOp w (phash t cd v) -> vo_ok (snd (step w (VExecOperator c t cd v))) = false.
  Proof.
    intros [D1 _]. cbn [vstep]. destruct (run_tx w c _) as [w' out] eqn:R. cbn [snd].
    destruct (vo_ok out) eqn:O; [|reflexivity]. exfalso.
    apply run_tx_some in R as (l1 & ev & _ & F & _); [|exact O].
    apply execute_operator_proposal_spec in F. cbv zeta in F. cbn [w_gov] in F. destruct F as (_ & NZ & _). contradiction.
  Qed.

  (* ---------- C12: which operations can touch the time locks and approvals at all ---------- *)
  Theorem tables_frame w o :
    match o with
    | VGateway _ | VWithdraw _ _ _ | VTransferOp _ _ | VWithdrawRefund _ _ _ | VDeliver _ _ _ _ => tables (fst (step w o)) = tables w
    | _ => True
    end.
  Proof.
    destruct o as [go|c chain id src payload|c t cd v|c t cd v|c r a|c a|c tok nonce|self id ok rets|self id]; try exact I; cbn [vstep].
    - destruct (gstep H verify (w_gw w) go) as [g' r]. reflexivity.
    - destruct (run_tx w c _) as [w' out] eqn:R. cbn [fst]. destruct (vo_ok out) eqn:O.
      + apply run_tx_some in R as (l1 & ev & _ & F & _); [|exact O]. unfold gov_withdraw in F.
        destruct (negb _ || negb _); [discriminate|]. destruct (negb _); [discriminate|].
        destruct (transfer _ _ _ _ _); inversion F; subst. reflexivity.
      + apply run_tx_fail in R; [|exact O]. subst. reflexivity.
    - destruct (run_tx w c _) as [w' out] eqn:R. cbn [fst]. destruct (vo_ok out) eqn:O.
      + apply run_tx_some in R as (l1 & ev & _ & F & _); [|exact O]. unfold gov_transfer_operatorship in F.
        destruct (negb _ || negb _); [discriminate|]. destruct (negb _); [discriminate|].
        destruct (bytes_eqb a zero32); inversion F; subst. reflexivity.
      + apply run_tx_fail in R; [|exact O]. subst. reflexivity.
    - destruct (run_tx w c _) as [w' out] eqn:R. cbn [fst]. destruct (vo_ok out) eqn:O.
      + apply run_tx_some in R as (l1 & ev & _ & F & _); [|exact O]. unfold gov_withdraw_refund in F.
        destruct (negb _); [discriminate|]. cbn [w_gov] in F.
        destruct (refund_of _ _ _ _ =? 0); [inversion F; subst; reflexivity|].
        destruct (transfer _ _ _ _ _); inversion F; subst. reflexivity.
      + apply run_tx_fail in R; [|exact O]. subst. reflexivity.
    - destruct (find_pending id (w_pend w)) as [p|]; [|reflexivity]. destruct (gp_stage p); [|reflexivity].
      destruct (if ok then _ else _); reflexivity.
  Qed.

  (* ---------- C12: operator and funds ---------- *)
  Theorem gov_withdraw_self_only w c r a w' ev : gov_withdraw w c r a = Some (w', ev) ->
    x_caller c = x_self c /\ transfer (w_led w) (x_self c) r EGLD a = Some (w_led w') /\ w_gov w' = w_gov w.
  Proof.
    unfold gov_withdraw. destruct (negb _ || negb _); [discriminate|].
    destruct (bytes_eqb (x_caller c) (x_self c)) eqn:S; [|discriminate]. cbn [negb].
    destruct (transfer _ _ _ _ _) eqn:T; [|discriminate]. intro E; inversion E; subst. apply bytes_eqb_eq in S. auto.
  Qed.

  Theorem gov_transfer_operatorship_spec w c a w' ev : gov_transfer_operatorship w c a = Some (w', ev) ->
    (x_caller c = gv_operator (w_gov w) \/ x_caller c = x_self c) /\ a <> zero32 /\ gv_operator (w_gov w') = a /\ w_led w' = w_led w.
  Proof.
    unfold gov_transfer_operatorship. destruct (negb _ || negb _); [discriminate|].
    destruct (bytes_eqb (x_caller c) (gv_operator (w_gov w)) || bytes_eqb (x_caller c) (x_self c)) eqn:S; [|discriminate]. cbn [negb].
    destruct (bytes_eqb a zero32) eqn:Z; [discriminate|]. intro E; inversion E; subst. cbn.
    apply bytes_eqb_neq in Z. apply orb_true_iff in S as [S|S]; apply bytes_eqb_eq in S; auto.
  Qed.

  (* ---------- C16: withdrawal of a credit ---------- *)
  Theorem gov_withdraw_refund_spec w c tok nonce w' ev :
    gov_withdraw_refund w c tok nonce = Some (w', ev) ->
    let v := refund_of (w_gov w) (x_caller c) tok nonce in
    refund_of (w_gov w') (x_caller c) tok nonce = 0 /\
    (forall u t n, (u, (t, n)) <> (x_caller c, (tok, nonce)) -> refund_of (w_gov w') u t n = refund_of (w_gov w) u t n) /\
    (v = 0 -> w_led w' = w_led w) /\
    (v <> 0 -> transfer (w_led w) (x_self c) (x_caller c) (ltok tok nonce) v = Some (w_led w')) /\
    tables w' = tables w.
  Proof.
    unfold gov_withdraw_refund. cbv zeta. destruct (negb _); [discriminate|].
    set (v := refund_of (w_gov w) (x_caller c) tok nonce).
    assert (K : forall g', g' = set_refund (w_gov w) (x_caller c) tok nonce 0 ->
        refund_of g' (x_caller c) tok nonce = 0 /\
        (forall u t n, (u, (t, n)) <> (x_caller c, (tok, nonce)) -> refund_of g' u t n = refund_of (w_gov w) u t n)).
    { intros g' ->. split.
      - rewrite refund_of_set, (proj2 (rkey_eqb_spec _ _) eq_refl). reflexivity.
      - intros u t n Hne. rewrite refund_of_set. destruct (rkey_eqb (u, (t, n)) (x_caller c, (tok, nonce))) eqn:E; [|reflexivity].
        apply rkey_eqb_spec in E. contradiction. }
    destruct (N.eqb_spec v 0) as [Z|NZ].
    - intro E; inversion E; subst. cbn [w_gov w_led]. destruct (K _ eq_refl) as [K1 K2].
      split; [exact K1|]. split; [exact K2|]. split; [reflexivity|]. split; [intro; contradiction | reflexivity].
    - destruct (transfer (w_led w) (x_self c) (x_caller c) (ltok tok nonce) v) eqn:T; [|discriminate].
      intro E; inversion E; subst. cbn [w_gov w_led]. destruct (K _ eq_refl) as [K1 K2].
      split; [exact K1|]. split; [exact K2|]. split; [intro; contradiction|]. split; [reflexivity | reflexivity].
  Qed.

  (* refund credits change only in callbacks and in withdrawals *)
  Theorem refunds_frame w o :
    match o with
    | VCallback _ _ | VWithdrawRefund _ _ _ => True
    | _ => gv_refunds (w_gov (fst (step w o))) = gv_refunds (w_gov w)
    end.
  Proof.
    destruct o as [go|c chain id src payload|c t cd v|c t cd v|c r a|c a|c tok nonce|self id ok rets|self id]; try exact I; cbn [vstep].
    - destruct (gstep H verify (w_gw w) go) as [g' r]. reflexivity.
    - destruct (run_tx w c _) as [w' out] eqn:R. cbn [fst]. destruct (vo_ok out) eqn:O.
      + apply run_tx_some in R as (l1 & ev & _ & F & _); [|exact O].
        apply gov_execute_spec in F as (_ & _ & _ & _ & _ & _ & _ & p & g' & ev' & _ & _ & PC & Eg). cbn [w_gov] in PC.
        rewrite Eg. apply process_command_spec in PC. cbv zeta in PC. destruct PC as (A & _). exact A.
      + apply run_tx_fail in R; [|exact O]. subst. reflexivity.
    - destruct (run_tx w c _) as [w' out] eqn:R. cbn [fst]. destruct (vo_ok out) eqn:O.
      + apply run_tx_some in R as (l1 & ev & _ & F & _); [|exact O].
        apply execute_proposal_spec in F. cbv zeta in F. cbn [w_gov] in F. destruct F as (_ & _ & _ & _ & _ & _ & A & _). exact A.
      + apply run_tx_fail in R; [|exact O]. subst. reflexivity.
    - destruct (run_tx w c _) as [w' out] eqn:R. cbn [fst]. destruct (vo_ok out) eqn:O.
      + apply run_tx_some in R as (l1 & ev & _ & F & _); [|exact O].
        apply execute_operator_proposal_spec in F. cbv zeta in F. cbn [w_gov] in F. destruct F as (_ & _ & _ & _ & _ & _ & A & _). exact A.
      + apply run_tx_fail in R; [|exact O]. subst. reflexivity.
    - destruct (run_tx w c _) as [w' out] eqn:R. cbn [fst]. destruct (vo_ok out) eqn:O.
      + apply run_tx_some in R as (l1 & ev & _ & F & _); [|exact O]. apply gov_withdraw_self_only in F as (_ & _ & A). rewrite A. reflexivity.
      + apply run_tx_fail in R; [|exact O]. subst. reflexivity.
    - destruct (run_tx w c _) as [w' out] eqn:R. cbn [fst]. destruct (vo_ok out) eqn:O.
      + apply run_tx_some in R as (l1 & ev & _ & F & _); [|exact O]. unfold gov_transfer_operatorship in F.
        destruct (negb _ || negb _); [discriminate|]. destruct (negb _); [discriminate|].
        destruct (bytes_eqb a zero32); inversion F; subst. reflexivity.
      + apply run_tx_fail in R; [|exact O]. subst. reflexivity.
    - destruct (find_pending id (w_pend w)) as [p|]; [|reflexivity]. destruct (gp_stage p); [|reflexivity].
      destruct (if ok then _ else _); reflexivity.
  Qed.

  (* the callback step of the world: credits = attached payments of a failed dispatch, to its caller *)
  Theorem callback_step_credits w self id p ok rets :
    find_pending id (w_pend w) = Some p -> gp_stage p = AwaitCallback ok rets ->
    forall u tok nonce,
      refund_of (w_gov (fst (step w (VCallback self id)))) u tok nonce =
      refund_of (if ok then w_gov w else credit_failure (w_gov w) (gp_caller p) (gp_pay p)) u tok nonce.
  Proof.
    intros F S u tok nonce. cbn [vstep]. rewrite F, S.
    destruct (callback true self (w_gov w) p ok rets) as [g' ev] eqn:CB. cbn [fst w_gov].
    apply callback_spec in CB. cbv zeta in CB. destruct CB as (_ & K & _). apply K.
  Qed.
End P.

(* ---------- the unrepaired code violated C11: a concrete history (fx = false) ---------- *)
Module Refuted.
  Definition vf (_ _ _ : bytes) : bool := true.
  Definition self := be_enc 32 17. Definition relayer := be_enc 32 3. Definition tgt := be_enc 32 6.
  Definition chain := str "axelarnet". Definition gaddr := str "axelar1governance".
  Definition cdata : bytes := enc_buf (str "doIt") ++ enc_u32 0 ++ enc_u64 0.
  Definition payload (cmd : N) : bytes := [byte_of_N cmd] ++ tgt ++ enc_buf cdata ++ enc_big 0 ++ enc_u64 0.
  Definition msg (id : bytes) (cmd : N) : message :=
    {| m_chain := chain; m_id := id; m_src := gaddr; m_contract := self; m_ph := keccak256 (payload cmd) |}.
  Definition gw0 : gw := fst (approve_all keccak256
    {| g_epoch := 1; g_last_rot := 0; g_hash_by_epoch := []; g_epoch_by_hash := []; g_retention := 0; g_domain := zeros 32;
       g_min_delay := 0; g_operator := []; g_messages := [] |} [msg (str "m1") 0; msg (str "m2") 1]).
  Definition w0 : gworld :=
    {| w_gw := gw0;
       w_gov := {| gv_gateway := be_enc 32 16; gv_chain := chain; gv_address := gaddr; gv_min_delay := 10; gv_operator := be_enc 32 2;
                   gv_eta := []; gv_tl_flight := []; gv_approvals := []; gv_op_flight := []; gv_refunds := [] |};
       w_led := []; w_pend := []; w_next := 0 |}.
  Definition cx (now : N) : xctx := {| x_self := self; x_caller := relayer; x_now := now; x_value := no_value |}.
  Definition history : list vop :=
    [ VExecute (cx 100) chain (str "m1") gaddr (payload 0);      (* schedule, eta = 110 *)
      VExecProposal (cx 110) tgt cdata 0;                        (* dispatch *)
      VExecute (cx 111) chain (str "m2") gaddr (payload 1);      (* cancel while in flight *)
      VDeliver self 0 false [];                                  (* the call fails *)
      VCallback self 0 ].
  (* old code: the cancelled proposal is dispatched again; repaired code: it is not *)
  Example c11_unrepaired_refuted :
    vo_ok (snd (vstep keccak256 vf false (vrun keccak256 vf false w0 history) (VExecProposal (cx 120) tgt cdata 0))) = true.
  Proof. vm_compute. reflexivity. Qed.
  Example c11_repaired_holds_here :
    vo_ok (snd (vstep keccak256 vf true (vrun keccak256 vf true w0 history) (VExecProposal (cx 120) tgt cdata 0))) = false
    /\ forallb (fun k => vo_ok (snd (vstep keccak256 vf true (vrun keccak256 vf true w0 (firstn k history)) (nth k history (VCallback [] 0))))) [0; 1; 2; 3; 4]%nat = true.
  Proof. vm_compute. split; reflexivity. Qed.
End Refuted.
