(* The upgrade path of a token manager (Model/TMUpgrade.v): what `upgrade` can and cannot change, and the consequence for
   histories that mix the sixteen endpoint operations with upgrades carrying arbitrary arguments. *)
From Coq Require Import String List NArith Lia Bool.
From Ax Require Import Lib.Bytes Lib.Mvx Model.Check Model.Env Model.TokenManager Model.TMUpgrade
     Proofs.AListFacts Proofs.TMFacts Proofs.TMCustody Proofs.TMToken.
Import ListNotations.
Open Scope N_scope.

(* everything a manager records except roles and proposals *)
Definition fixed_eq (t t' : tm) : Prop :=
  tm_service t' = tm_service t /\ tm_tid t' = tm_tid t /\
  tm_limit t' = tm_limit t /\ tm_in t' = tm_in t /\ tm_out t' = tm_out t /\ tm_pending t' = tm_pending t /\ tm_proposed t' = tm_proposed t.

Lemma roles_of_add self t a r b : roles_of (fst (add_role self t a r)) b = if bytes_eqb b a then N.lor (roles_of t a) r else roles_of t b.
Proof.
  unfold add_role. cbn [fst]. apply roles_of_with_roles.
Qed.

(* an upgrade, whatever its arguments: service, token id, limit, flow counters, pending issuances and proposals stay;
   the type of a lock/unlock or mint/burn manager stays, the type of a NATIVE manager (stored as the empty buffer) is replaced by the
   argument; a recorded token stays; the ledger is not touched (ustep); roles are only ADDED, and only to the two accounts named
   in the arguments (the operator argument -- the zero address when absent -- and the service argument) *)
Theorem upgrade_spec t self service ty tid operator token t' e :
  tm_upgrade t self service ty tid operator token = Some (t', e) ->
  fixed_eq t t' /\
  (tm_type t <> T_NATIVE -> tm_type t' = tm_type t) /\ (tm_type t = T_NATIVE -> tm_type t' = ty) /\
  (tm_token t <> [] -> tm_token t' = tm_token t) /\
  (tm_token t = [] -> tm_token t' = match token with Some tk => tk | None => [] end) /\
  (forall a, N.land (roles_of t' a) (roles_of t a) = roles_of t a) /\
  (forall a, a <> service -> a <> match operator with Some o => o | None => zero32 end -> roles_of t' a = roles_of t a).
Proof.
  unfold tm_upgrade. destruct (_ || _); [discriminate|].
  set (t0 := if tm_type t =? T_NATIVE then with_type t ty else t).
  assert (T0 : fixed_eq t t0 /\ tm_token t0 = tm_token t /\ (forall a, roles_of t0 a = roles_of t a) /\
               (tm_type t <> T_NATIVE -> tm_type t0 = tm_type t) /\ (tm_type t = T_NATIVE -> tm_type t0 = ty)).
  { unfold t0. destruct (tm_type t =? T_NATIVE) eqn:Z.
    - apply N.eqb_eq in Z. repeat split; try reflexivity; intros; congruence.
    - apply N.eqb_neq in Z. repeat split; try reflexivity; intros; congruence. }
  destruct T0 as ((z1 & z3 & z4 & z5 & z6 & z7 & z8) & ZT & ZR & ZY1 & ZY2).
  clearbody t0.
  set (op := match operator with Some a => a | None => zero32 end).
  pose proof (roles_of_add self t0 op (N.lor FLOW_LIMITER OPERATOR)) as R1.
  destruct (add_role self t0 op (N.lor FLOW_LIMITER OPERATOR)) as [t1 e1] eqn:A1. cbn [fst] in R1.
  pose proof (roles_of_add self t1 service (N.lor FLOW_LIMITER OPERATOR)) as R2.
  destruct (add_role self t1 service (N.lor FLOW_LIMITER OPERATOR)) as [t2 e2] eqn:A2. cbn [fst] in R2.
  assert (F1 : fixed_eq t0 t1 /\ tm_token t1 = tm_token t0 /\ tm_type t1 = tm_type t0) by (unfold add_role in A1; inversion A1; subst; repeat split).
  assert (F2 : fixed_eq t1 t2 /\ tm_token t2 = tm_token t1 /\ tm_type t2 = tm_type t1) by (unfold add_role in A2; inversion A2; subst; repeat split).
  destruct F1 as [(a1 & a3 & a4 & a5 & a6 & a7 & a8) [T1 Y1]]. destruct F2 as [(b1 & b3 & b4 & b5 & b6 & b7 & b8) [T2 Y2]].
  assert (RR : forall a, roles_of t2 a = if bytes_eqb a service then N.lor (if bytes_eqb service op then N.lor (roles_of t op) (N.lor FLOW_LIMITER OPERATOR) else roles_of t service) (N.lor FLOW_LIMITER OPERATOR)
                                   else if bytes_eqb a op then N.lor (roles_of t op) (N.lor FLOW_LIMITER OPERATOR) else roles_of t a).
  { intro a. rewrite R2. destruct (bytes_eqb a service) eqn:Es; rewrite R1, !ZR; reflexivity. }
  destruct (if ty =? T_NATIVE then _ else _); [|discriminate]. intro E. inversion E; subst t' e. clear E.
  assert (G : forall tt, (tt = t2 \/ exists tk, tt = with_token t2 tk) ->
            fixed_eq t tt /\ tm_type tt = tm_type t0 /\ (forall a, roles_of tt a = roles_of t2 a)).
  { intros tt [-> | [tk ->]]; (split; [repeat split; cbn [with_token tm_service tm_type tm_tid tm_limit tm_in tm_out tm_pending tm_proposed]; congruence |
                               split; [cbn [with_token tm_type]; congruence | intro a; reflexivity]]). }
  assert (LAND : forall x y, N.land (N.lor x y) x = x).
  { intros x y. apply N.bits_inj. intro n. rewrite N.land_spec, N.lor_spec. destruct (N.testbit x n); destruct (N.testbit y n); reflexivity. }
  assert (ROLES : forall a, N.land (roles_of t2 a) (roles_of t a) = roles_of t a).
  { intro a. rewrite RR. destruct (bytes_eqb a service) eqn:Es.
    - apply bytes_eqb_eq in Es. subst a. destruct (bytes_eqb service op) eqn:Eo.
      + apply bytes_eqb_eq in Eo. rewrite <- Eo. rewrite <- N.lor_assoc. apply LAND.
      + apply LAND.
    - destruct (bytes_eqb a op) eqn:Eo; [apply bytes_eqb_eq in Eo; subst a; apply LAND | apply N.land_diag]. }
  assert (OUT : forall a, a <> service -> a <> op -> roles_of t2 a = roles_of t a).
  { intros a N1 N2. rewrite RR. apply bytes_eqb_neq in N1, N2. rewrite N1, N2. reflexivity. }
  assert (TK2 : tm_token t2 = tm_token t) by congruence.
  destruct token as [tk|].
  - destruct (bytes_eqb (tm_token t2) []) eqn:Z.
    + apply bytes_eqb_eq in Z. destruct (G (with_token t2 tk)) as (Fx & Yx & Rx); [right; eauto|].
      split; [exact Fx|]. split; [intro NN; rewrite Yx; auto|]. split; [intro NN; rewrite Yx; auto|].
      split; [intro NE; exfalso; apply NE; congruence|]. split; [intros _; reflexivity|].
      split; [intro a; rewrite Rx; apply ROLES | intros a N1 N2; rewrite Rx; apply OUT; assumption].
    + apply bytes_eqb_neq in Z. destruct (G t2) as (Fx & Yx & Rx); [left; reflexivity|].
      split; [exact Fx|]. split; [intro NN; rewrite Yx; auto|]. split; [intro NN; rewrite Yx; auto|].
      split; [intros _; congruence|]. split; [intro E0; exfalso; apply Z; congruence|].
      split; [intro a; apply ROLES | intros a N1 N2; apply OUT; assumption].
  - destruct (G t2) as (Fx & Yx & Rx); [left; reflexivity|].
    split; [exact Fx|]. split; [intro NN; rewrite Yx; auto|]. split; [intro NN; rewrite Yx; auto|].
    split; [intros _; congruence|]. split; [intro E0; congruence|].
    split; [intro a; apply ROLES | intros a N1 N2; apply OUT; assumption].
Qed.

(* ---------- the recorded service never changes: sixteen endpoints, the issuance callback, and upgrades ---------- *)
Lemma add_flow_in_service t now a t' : add_flow_in t now a = Some t' -> tm_service t' = tm_service t.
Proof. unfold add_flow_in. destruct (tm_limit t =? 0); [intro E; inversion E; reflexivity|]. destruct (add_flow _ _ _ _); intro E; inversion E; reflexivity. Qed.
Lemma add_flow_out_service t now a t' : add_flow_out t now a = Some t' -> tm_service t' = tm_service t.
Proof. unfold add_flow_out. destruct (tm_limit t =? 0); [intro E; inversion E; reflexivity|]. destruct (add_flow _ _ _ _); intro E; inversion E; reflexivity. Qed.
Lemma transfer_role_service self t f to r t' e : transfer_role self t f to r = Some (t', e) -> tm_service t' = tm_service t.
Proof. unfold transfer_role. destruct (contains _ _); [|discriminate]. intro E; inversion E; subst. reflexivity. Qed.
Lemma propose_role_service self t f to r t' e : propose_role self t f to r = Some (t', e) -> tm_service t' = tm_service t.
Proof. unfold propose_role. destruct (contains _ _); [|discriminate]. intro E; inversion E; subst. reflexivity. Qed.
Lemma accept_role_service self t f to r t' e : accept_role self t f to r = Some (t', e) -> tm_service t' = tm_service t.
Proof. unfold accept_role. destruct (_ && _); [|discriminate]. intro E. apply transfer_role_service in E. rewrite E. reflexivity. Qed.

Theorem run_endpoint_service t l o t' l' r e : run_endpoint t l o = Some (t', l', r, e) -> tm_service t' = tm_service t.
Proof.
  destruct o as [c d a|c|c v|c a|c a|c f to|c a|c a|c f|c a|c a|c f|c a v|c|c m n s|self result]; cbn [run_endpoint]; intro G.
  - unfold give_token in G. destruct (_ || _); [discriminate|]. destruct (negb _); [discriminate|].
    destruct (add_flow_in t (t_now c) a) as [t1|] eqn:A; [|discriminate]. apply add_flow_in_service in A.
    destruct (is_mint_type _).
    + destruct (_ || _); [discriminate|]. destruct (transfer _ _ _ _ _); inversion G; subst. exact A.
    + destruct (bytes_eqb _ _); [discriminate|]. destruct (transfer _ _ _ _ _); inversion G; subst. exact A.
  - unfold take_token in G. destruct (negb _); [discriminate|]. destruct (egld_or_single_fungible _) as [[tok amt]|]; [|discriminate].
    destruct (negb _); [discriminate|]. destruct (add_flow_out t (t_now c) amt) as [t1|] eqn:A; [|discriminate]. apply add_flow_out_service in A.
    destruct (is_mint_type _).
    + destruct (bytes_eqb tok EGLD); [discriminate|]. destruct (debit _ _ _ _); inversion G; subst. exact A.
    + inversion G; subst. exact A.
  - unfold set_flow_limit in G. destruct (negb _); [discriminate|]. destruct (only_role _ _ _); inversion G; subst. reflexivity.
  - unfold add_flow_limiter in G. apply nonpay_some in G as [_ G]. destruct (_ && _); [|discriminate]. apply wrap_some in G as [_ G]. inversion G; subst. reflexivity.
  - unfold remove_flow_limiter in G. apply nonpay_some in G as [_ G]. destruct (_ && _); [|discriminate]. apply wrap_some in G as [_ G]. inversion G; subst. reflexivity.
  - unfold transfer_flow_limiter in G. apply nonpay_some in G as [_ G]. destruct (_ && _); [|discriminate]. apply wrap_some in G as [_ G]. eapply transfer_role_service; exact G.
  - unfold transfer_operatorship in G. apply nonpay_some in G as [_ G]. destruct (_ && _); [|discriminate]. apply wrap_some in G as [_ G]. eapply transfer_role_service; exact G.
  - unfold propose_operatorship in G. apply nonpay_some in G as [_ G]. destruct (_ && _); [|discriminate]. apply wrap_some in G as [_ G]. eapply propose_role_service; exact G.
  - unfold accept_operatorship in G. apply nonpay_some in G as [_ G]. destruct (addr_ok f); [|discriminate]. apply wrap_some in G as [_ G]. eapply accept_role_service; exact G.
  - unfold transfer_mintership in G. apply nonpay_some in G as [_ G]. destruct (_ && _); [|discriminate]. apply wrap_some in G as [_ G]. eapply transfer_role_service; exact G.
  - unfold propose_mintership in G. apply nonpay_some in G as [_ G]. destruct (_ && _); [|discriminate]. apply wrap_some in G as [_ G]. eapply propose_role_service; exact G.
  - unfold accept_mintership in G. apply nonpay_some in G as [_ G]. destruct (addr_ok f); [|discriminate]. apply wrap_some in G as [_ G]. eapply accept_role_service; exact G.
  - unfold tm_mint in G. apply nonpay_some in G as [_ G]. destruct (_ || _); [discriminate|]. destruct (transfer _ _ _ _ _); inversion G; subst. reflexivity.
  - unfold tm_burn in G. destruct (_ || _); [discriminate|]. destruct (egld_or_single_fungible _) as [[tok amt]|]; [|discriminate].
    destruct (negb _); [discriminate|]. destruct (debit _ _ _ _); inversion G; subst. reflexivity.
  - unfold deploy_interchain_token in G. destruct (negb _); [discriminate|]. destruct (_ || _); [discriminate|]. destruct (negb _); [discriminate|].
    destruct (_ || _); [discriminate|]. inversion G; subst. reflexivity.
  - discriminate.
Qed.

Theorem tstep_service t l o : tm_service (fst (fst (tstep t l o))) = tm_service t.
Proof.
  unfold tstep. destruct o as [c d a|c|c v|c a|c a|c f to|c a|c a|c f|c a|c a|c f|c a v|c|c m n s|self result].
  16:{ destruct (tm_pending t =? 0); [reflexivity|]. unfold deploy_token_callback.
       destruct result as [tok|]; [destruct (bytes_eqb (tm_token t) [])|]; reflexivity. }
  all: cbn [top_ctx]; destruct (pay_in _ _ _ _) as [l1|]; [|reflexivity].
  all: match goal with |- context [run_endpoint ?tt ?ll ?o] => destruct (run_endpoint tt ll o) as [[[[t1 l2] r] e]|] eqn:G; [|reflexivity] end.
  all: cbn [fst]; eapply run_endpoint_service; exact G.
Qed.

Theorem ustep_service t l o : tm_service (fst (fst (ustep t l o))) = tm_service t.
Proof.
  destruct o as [o|[self service ty tid operator token]]; cbn [ustep]; [apply tstep_service|].
  destruct (tm_upgrade t self service ty tid operator token) as [[t' e]|] eqn:U; [|reflexivity].
  cbn [fst]. apply upgrade_spec in U as ((S & _) & _). exact S.
Qed.
Theorem ustep_token t l o : tm_token t <> [] -> tm_token (fst (fst (ustep t l o))) = tm_token t.
Proof.
  intro NE. destruct o as [o|[self service ty tid operator token]]; cbn [ustep]; [apply tstep_token; exact NE|].
  destruct (tm_upgrade t self service ty tid operator token) as [[t' e]|] eqn:U; [|reflexivity].
  cbn [fst]. apply upgrade_spec in U as (_ & _ & _ & T & _). exact (T NE).
Qed.
(* an upgrade moves no funds *)
Theorem upgrade_ledger t l u : snd (fst (ustep t l (inr u))) = l.
Proof. destruct u as [self service ty tid operator token]. cbn [ustep]. destruct (tm_upgrade _ _ _ _ _ _ _) as [[t' e]|]; reflexivity. Qed.

(* histories mixing the seventeen operations with upgrades carrying ANY arguments, in any order *)
Theorem urun_service ops : forall t l, tm_service (fst (urun t l ops)) = tm_service t.
Proof.
  induction ops as [|o r IH]; intros t l; [reflexivity|].
  unfold urun. cbn [fold_left fst snd]. destruct (ustep t l o) as [[t1 l1] out] eqn:U.
  change (tm_service (fst (urun t1 l1 r)) = tm_service t). rewrite IH.
  pose proof (ustep_service t l o) as S. rewrite U in S. exact S.
Qed.
Theorem urun_token ops : forall t l, tm_token t <> [] -> tm_token (fst (urun t l ops)) = tm_token t.
Proof.
  induction ops as [|o r IH]; intros t l NE; [reflexivity|].
  unfold urun. cbn [fold_left fst snd]. destruct (ustep t l o) as [[t1 l1] out] eqn:U.
  pose proof (ustep_token t l o NE) as S. rewrite U in S. cbn [fst] in S.
  change (tm_token (fst (urun t1 l1 r)) = tm_token t). rewrite IH; [exact S | rewrite S; exact NE].
Qed.

(* C10, first sentence, over such histories: whoever is not the service recorded at deployment is refused by giveToken and takeToken,
   whatever upgrades were sent in between *)
Corollary give_after_history_service_only ops t0 l0 l c d a :
  t_caller c <> tm_service t0 -> give_token (fst (urun t0 l0 ops)) l c d a = None.
Proof. intro NE. apply give_only_service. rewrite urun_service. exact NE. Qed.
Corollary take_after_history_service_only ops t0 l0 l c :
  t_caller c <> tm_service t0 -> take_token (fst (urun t0 l0 ops)) l c = None.
Proof. intro NE. apply take_only_service. rewrite urun_service. exact NE. Qed.
