(* C01 / C03: proof validation, signer rotation, operatorship of the gateway model. *)
From Coq Require Import String Ascii.
From Coq Require Import List Arith NArith Lia Bool.
From Coq Require Import Init.Byte Strings.Byte.
From Ax Require Import Lib.Bytes Lib.Mvx Model.Gateway Proofs.AListFacts Proofs.GatewayMsgs.
Import ListNotations.
Open Scope N_scope.

(* epoch <-> signer-set hash tables are mutually inverse on 1..epoch *)
Definition Inv (g : gw) : Prop :=
  (forall e h, alookup N.eqb e (g_hash_by_epoch g) = Some h ->
      1 <= e <= g_epoch g /\ alookup bytes_eqb h (g_epoch_by_hash g) = Some e) /\
  (forall h e, alookup bytes_eqb h (g_epoch_by_hash g) = Some e ->
      1 <= e <= g_epoch g /\ alookup N.eqb e (g_hash_by_epoch g) = Some h) /\
  (forall e, 1 <= e <= g_epoch g -> exists h, alookup N.eqb e (g_hash_by_epoch g) = Some h).

Fixpoint increasing (prev : N) (ss : list signer) : Prop :=
  match ss with
  | [] => True
  | s :: r => prev < be_dec (s_key s) /\ increasing (be_dec (s_key s)) r
  end.

Definition weights_pos (ss : list signer) : Prop := Forall (fun s => 0 < s_weight s) ss.

Section P.
  Variable H : bytes -> bytes.
  Variable verify : bytes -> bytes -> bytes -> bool.

  (* ---------------- validate_signers ---------------- *)
  Lemma signers_ok_spec ss : forall prev, signers_ok prev ss = true <-> increasing prev ss /\ weights_pos ss.
  Proof.
    induction ss as [|s r IH]; intro prev; cbn [signers_ok increasing].
    - split; [intros _; split; [exact I | constructor] | reflexivity].
    - rewrite !andb_true_iff, IH, N.ltb_lt, N.ltb_lt. unfold weights_pos. split.
      + intros [[A B] [C D]]. split; [split; assumption | constructor; assumption].
      + intros [[A C] D]. inversion D; subst. split; [split; assumption | split; assumption].
  Qed.

  Theorem validate_signers_spec w :
    validate_signers w = true <->
    ws_signers w <> [] /\ increasing 0 (ws_signers w) /\ weights_pos (ws_signers w) /\
    0 < ws_threshold w /\ ws_threshold w <= total_weight (ws_signers w).
  Proof.
    unfold validate_signers. destruct (ws_signers w) as [|s r] eqn:E.
    - split; [discriminate | intros [A _]; congruence].
    - rewrite !andb_true_iff, signers_ok_spec, N.ltb_lt, N.leb_le. split.
      + intros [[[A B] C] D]. split; [discriminate | tauto].
      + intros (_ & A & B & C & D). tauto.
  Qed.

  Corollary validate_signers_rejects_empty w : ws_signers w = [] -> validate_signers w = false.
  Proof. intro E. unfold validate_signers. rewrite E. reflexivity. Qed.

  Corollary validate_signers_rejects_zero_weight w s : In s (ws_signers w) -> s_weight s = 0 -> validate_signers w = false.
  Proof.
    intros Hin Hz. destruct (validate_signers w) eqn:V; [|reflexivity].
    apply validate_signers_spec in V as (_ & _ & W & _). unfold weights_pos in W. rewrite Forall_forall in W.
    specialize (W s Hin). lia.
  Qed.

  Corollary validate_signers_rejects_zero_threshold w : ws_threshold w = 0 -> validate_signers w = false.
  Proof. intro Z. destruct (validate_signers w) eqn:V; [|reflexivity]. apply validate_signers_spec in V. lia. Qed.

  Corollary validate_signers_rejects_high_threshold w : total_weight (ws_signers w) < ws_threshold w -> validate_signers w = false.
  Proof. intro Z. destruct (validate_signers w) eqn:V; [|reflexivity]. apply validate_signers_spec in V. lia. Qed.

  Lemma increasing_adjacent prev a b l1 l2 : increasing prev (l1 ++ a :: b :: l2) -> be_dec (s_key a) < be_dec (s_key b).
  Proof.
    revert prev; induction l1 as [|x l1 IH]; intros prev; cbn [app increasing].
    - intros [_ [A _]]. exact A.
    - intros [_ A]. eapply IH. exact A.
  Qed.

  Corollary validate_signers_rejects_unsorted w a b l1 l2 :
    ws_signers w = l1 ++ a :: b :: l2 -> be_dec (s_key b) <= be_dec (s_key a) -> validate_signers w = false.
  Proof.
    intros E Hle. destruct (validate_signers w) eqn:V; [|reflexivity].
    apply validate_signers_spec in V as (_ & I & _). rewrite E in I. apply increasing_adjacent in I. lia.
  Qed.

  (* ---------------- rotate_raw ---------------- *)
  Lemma rotate_raw_inv g now w enf g' ev :
    rotate_raw H g now w enf = Some (g', ev) ->
    validate_signers w = true /\
    (enf = true -> g_min_delay g <= now - g_last_rot g) /\
    alookup bytes_eqb (signers_hash H w) (g_epoch_by_hash g) = None /\
    g' = {| g_epoch := g_epoch g + 1; g_last_rot := now;
            g_hash_by_epoch := aset N.eqb (g_epoch g + 1) (signers_hash H w) (g_hash_by_epoch g);
            g_epoch_by_hash := aset bytes_eqb (signers_hash H w) (g_epoch g + 1) (g_epoch_by_hash g);
            g_retention := g_retention g; g_domain := g_domain g; g_min_delay := g_min_delay g;
            g_operator := g_operator g; g_messages := g_messages g |} /\
    ev = [ev_signers_rotated (g_epoch g + 1) (signers_hash H w) w].
  Proof.
    unfold rotate_raw. destruct (validate_signers w); [|discriminate].
    destruct (negb enf || (g_min_delay g <=? now - g_last_rot g)) eqn:D; [|discriminate].
    destruct (alookup bytes_eqb (signers_hash H w) (g_epoch_by_hash g)) eqn:L; [discriminate|].
    intro E; inversion E; subst. repeat split.
    intros ->. cbn in D. apply N.leb_le. exact D.
  Qed.

  Lemma rotate_raw_Inv g now w enf g' ev : Inv g -> rotate_raw H g now w enf = Some (g', ev) -> Inv g'.
  Proof.
    intros (I1 & I2 & I3) R. apply rotate_raw_inv in R as (_ & _ & Hfresh & -> & _).
    set (h := signers_hash H w) in *. set (e := g_epoch g + 1).
    unfold Inv. cbn [g_epoch g_hash_by_epoch g_epoch_by_hash].
    split; [|split].
    - intros e0 h0 L. rewrite (alookup_aset bytes_eqb bytes_eqb_eq).
      destruct (N.eqb e0 e) eqn:Ee; rewrite (alookup_aset N.eqb Neqb_spec), Ee in L.
      + apply N.eqb_eq in Ee. subst e0. inversion L; subst h0. rewrite bytes_eqb_refl. split; [lia | reflexivity].
      + apply N.eqb_neq in Ee. destruct (I1 _ _ L) as [B L2]. split; [lia|].
        destruct (bytes_eqb h0 h) eqn:Eh; [|exact L2]. apply bytes_eqb_eq in Eh. subst h0. congruence.
    - intros h0 e0 L. rewrite (alookup_aset N.eqb Neqb_spec).
      destruct (bytes_eqb h0 h) eqn:Eh; rewrite (alookup_aset bytes_eqb bytes_eqb_eq), Eh in L.
      + inversion L; subst e0. apply bytes_eqb_eq in Eh. subst h0. rewrite N.eqb_refl. split; [lia | reflexivity].
      + destruct (I2 _ _ L) as [B L2]. split; [lia|].
        destruct (N.eqb e0 e) eqn:Ee; [apply N.eqb_eq in Ee; lia | exact L2].
    - intros e0 He0. rewrite (alookup_aset N.eqb Neqb_spec).
      destruct (N.eqb e0 e) eqn:Ee; [eauto|]. apply N.eqb_neq in Ee. apply I3. lia.
  Qed.

  Lemma Inv_config g g' : same_config g g' -> Inv g -> Inv g'.
  Proof.
    intros (E1 & _ & E3 & E4 & _) I. unfold Inv in *. rewrite E1, E3, E4. exact I.
  Qed.

  Lemma Inv_set_messages g ms : Inv g -> Inv (set_messages g ms).
  Proof. intro I. exact I. Qed.

  Lemma Inv_set_operator g a : Inv g -> Inv (set_operator g a).
  Proof. intro I. exact I. Qed.

  Lemma rotate_signers_inv g c s p g' ev :
    rotate_signers H verify g c s p = Some (g', ev) ->
    exists pr w l, dec_proof_top p = Some pr /\ dec_wsigners_top s = Some w /\ g_operator g <> [] /\
      validate_proof H verify g (data_hash H CMD_ROTATE s) pr = Some l /\
      (c_caller c <> g_operator g -> l = true) /\
      rotate_raw H g (c_now c) w (negb (bytes_eqb (c_caller c) (g_operator g))) = Some (g', ev).
  Proof.
    unfold rotate_signers. destruct (dec_proof_top p) as [pr|]; [|discriminate].
    destruct (dec_wsigners_top s) as [w|]; [|discriminate].
    destruct (bytes_eqb (g_operator g) []) eqn:Eo; [discriminate|].
    destruct (validate_proof H verify g _ pr) as [l|] eqn:V; [|discriminate].
    destruct (negb (negb (bytes_eqb (c_caller c) (g_operator g))) || l) eqn:D; [|discriminate].
    intro R. exists pr, w, l. repeat split; auto.
    - intro E. rewrite E in Eo. discriminate.
    - intro Hne. apply bytes_eqb_neq in Hne. rewrite Hne in D. exact D.
  Qed.

  Theorem gstep_Inv g o : Inv g -> Inv (fst (gstep H verify g o)).
  Proof.
    intro I.
    destruct o as [c m p|c s p|c chain id src ph|c a|c chain addr payload|c chain id src contract ph|c chain id]; cbn [gstep].
    - destruct (approve_messages H verify g m p) as [[g' ev]|] eqn:E; cbn [fst]; [|exact I].
      apply approve_messages_inv in E as (pr & ms & _ & _ & _ & _ & E).
      assert (g' = fst (approve_all H g ms)) as -> by (rewrite <- E; reflexivity).
      eapply Inv_config; [apply approve_all_config | exact I].
    - destruct (rotate_signers H verify g c s p) as [[g' ev]|] eqn:E; cbn [fst]; [|exact I].
      apply rotate_signers_inv in E as (pr & w & l & _ & _ & _ & _ & _ & R). eapply rotate_raw_Inv; eauto.
    - destruct (validate_message H g c chain id src ph) as [[[g' b] ev]|] eqn:E; cbn [fst]; [|exact I].
      apply validate_message_inv in E as (_ & _ & Ht & Hf). destruct b.
      + destruct (Ht eq_refl) as [-> _]. exact I.
      + destruct (Hf eq_refl) as [-> _]. exact I.
    - destruct (transfer_operatorship g c a) as [[g' ev]|] eqn:E; cbn [fst]; [|exact I].
      unfold transfer_operatorship in E. destruct (negb _ || _); [discriminate|].
      destruct (_ || _); [|discriminate]. destruct (bytes_eqb a zero_addr); [discriminate|]. inversion E; subst. exact I.
    - exact I.
    - destruct (is_message_approved H g chain id src contract ph); exact I.
    - exact I.
  Qed.

  Theorem grun_Inv g ops : Inv g -> Inv (grun H verify g ops).
  Proof. revert g; induction ops as [|o r IH]; intros g I; [exact I|]. rewrite grun_cons. apply IH. apply gstep_Inv. exact I. Qed.

  Lemma rotate_all_Inv ws : forall g now g' ev, Inv g -> rotate_all H g now ws = Some (g', ev) -> Inv g'.
  Proof.
    induction ws as [|w r IH]; intros g now g' ev I R; cbn [rotate_all] in R.
    - inversion R; subst. exact I.
    - destruct (rotate_raw H g now w false) as [[g1 ev1]|] eqn:R1; [|discriminate].
      destruct (rotate_all H g1 now r) as [[g2 ev2]|] eqn:R2; [|discriminate].
      inversion R; subst. eapply IH; [|exact R2]. eapply rotate_raw_Inv; eauto.
  Qed.

  Theorem init_Inv now ret dom md op srs g ev : gw_init H now ret dom md op srs = Some (g, ev) -> Inv g.
  Proof.
    unfold gw_init. destruct (negb _ || negb _); [discriminate|].
    set (g0 := {| g_epoch := 0; g_last_rot := 0; g_hash_by_epoch := []; g_epoch_by_hash := []; g_retention := ret;
                  g_domain := dom; g_min_delay := md; g_operator := []; g_messages := [] |}).
    assert (I0 : Inv g0).
    { repeat split; cbn in *; try discriminate. intros e He. lia. }
    destruct (bytes_eqb op zero_addr).
    - match goal with |- context [match ?d with Some _ => _ | None => None end] => destruct d as [ws|]; [|discriminate] end.
      destruct (rotate_all H g0 now ws) as [[g2 ev2]|] eqn:R; [|discriminate].
      intro E; inversion E; subst. eapply rotate_all_Inv; eauto.
    - match goal with |- context [match ?d with Some _ => _ | None => None end] => destruct d as [ws|]; [|discriminate] end.
      destruct (rotate_all H (set_operator g0 op) now ws) as [[g2 ev2]|] eqn:R; [|discriminate].
      intro E; inversion E; subst. eapply rotate_all_Inv; [|exact R]. exact I0.
  Qed.

  (* registered sets stay registered, with the same epoch, forever *)
  Lemma gstep_registered_mono g o h e :
    alookup bytes_eqb h (g_epoch_by_hash g) = Some e ->
    alookup bytes_eqb h (g_epoch_by_hash (fst (gstep H verify g o))) = Some e.
  Proof.
    intro L.
    destruct o as [c m p|c s p|c chain id src ph|c a|c chain addr payload|c chain id src contract ph|c chain id]; cbn [gstep].
    - destruct (approve_messages H verify g m p) as [[g' ev]|] eqn:E; cbn [fst]; [|exact L].
      apply approve_messages_inv in E as (pr & ms & _ & _ & _ & _ & E).
      assert (g' = fst (approve_all H g ms)) as -> by (rewrite <- E; reflexivity).
      destruct (approve_all_config H g ms) as (_ & _ & _ & E4 & _). rewrite E4. exact L.
    - destruct (rotate_signers H verify g c s p) as [[g' ev]|] eqn:E; cbn [fst]; [|exact L].
      apply rotate_signers_inv in E as (pr & w & l & _ & _ & _ & _ & _ & R).
      apply rotate_raw_inv in R as (_ & _ & Hfresh & -> & _). cbn [g_epoch_by_hash].
      rewrite (alookup_aset bytes_eqb bytes_eqb_eq). destruct (bytes_eqb h (signers_hash H w)) eqn:Eh; [|exact L].
      apply bytes_eqb_eq in Eh. subst. congruence.
    - destruct (validate_message H g c chain id src ph) as [[[g' b] ev]|] eqn:E; cbn [fst]; [|exact L].
      apply validate_message_inv in E as (_ & _ & Ht & Hf). destruct b.
      + destruct (Ht eq_refl) as [-> _]. exact L.
      + destruct (Hf eq_refl) as [-> _]. exact L.
    - destruct (transfer_operatorship g c a) as [[g' ev]|] eqn:E; cbn [fst]; [|exact L].
      unfold transfer_operatorship in E. destruct (negb _ || _); [discriminate|].
      destruct (_ || _); [|discriminate]. destruct (bytes_eqb a zero_addr); [discriminate|]. inversion E; subst. exact L.
    - exact L.
    - destruct (is_message_approved H g chain id src contract ph); exact L.
    - exact L.
  Qed.

  Theorem grun_registered_mono g ops h e :
    alookup bytes_eqb h (g_epoch_by_hash g) = Some e ->
    alookup bytes_eqb h (g_epoch_by_hash (grun H verify g ops)) = Some e.
  Proof.
    revert g; induction ops as [|o r IH]; intros g L; [exact L|]. rewrite grun_cons. apply IH. apply gstep_registered_mono. exact L.
  Qed.

  (* ---------------- signatures ---------------- *)
  Fixpoint valid_weight (d : bytes) (ss : list signer) (sigs : list (option bytes)) : N :=
    match ss, sigs with
    | s :: ss', Some sg :: sigs' => (if verify (s_key s) d sg then s_weight s else 0) + valid_weight d ss' sigs'
    | s :: ss', None :: sigs' => valid_weight d ss' sigs'
    | _, _ => 0
    end.

  Fixpoint supplied_weight (ss : list signer) (sigs : list (option bytes)) : N :=
    match ss, sigs with
    | s :: ss', Some _ :: sigs' => s_weight s + supplied_weight ss' sigs'
    | s :: ss', None :: sigs' => supplied_weight ss' sigs'
    | _, _ => 0
    end.

  Fixpoint all_valid (d : bytes) (ss : list signer) (sigs : list (option bytes)) : Prop :=
    match ss, sigs with
    | s :: ss', Some sg :: sigs' => verify (s_key s) d sg = true /\ all_valid d ss' sigs'
    | s :: ss', None :: sigs' => all_valid d ss' sigs'
    | _, _ => True
    end.

  Lemma validate_sigs_sound d thr : forall ss sigs acc,
    validate_sigs verify d thr acc ss sigs = true -> thr <= acc + valid_weight d ss sigs.
  Proof.
    induction ss as [|s ss IH]; intros [|[sg|] sigs] acc; cbn [validate_sigs valid_weight]; try discriminate.
    - destruct (verify (s_key s) d sg); [|discriminate].
      destruct (N.leb_spec thr (acc + s_weight s)) as [L|L]; [intros _; lia|].
      intro V. apply IH in V. lia.
    - intro V. apply IH in V. exact V.
  Qed.

  Lemma validate_sigs_complete d thr : forall ss sigs acc,
    length ss = length sigs -> all_valid d ss sigs -> acc < thr -> thr <= acc + supplied_weight ss sigs ->
    validate_sigs verify d thr acc ss sigs = true.
  Proof.
    induction ss as [|s ss IH]; intros [|[sg|] sigs] acc HL HV Hacc Hw; cbn [validate_sigs supplied_weight all_valid length] in *;
      try discriminate; try lia.
    - destruct HV as [V1 V2]. rewrite V1.
      destruct (N.leb_spec thr (acc + s_weight s)) as [L|L]; [reflexivity|].
      apply IH; auto; lia.
    - apply IH; auto.
  Qed.

  Theorem validate_proof_sound g dh p l :
    validate_proof H verify g dh p = Some l ->
    let w := pf_signers p in
    let sh := signers_hash H w in
    let e := epoch_of g sh in
    0 < e /\ g_epoch g - e <= g_retention g /\ pf_sigs p <> [] /\
    length (ws_signers w) = length (pf_sigs p) /\
    ws_threshold w <= valid_weight (digest H (g_domain g) sh dh) (ws_signers w) (pf_sigs p) /\
    l = (e =? g_epoch g).
  Proof.
    unfold validate_proof. cbv zeta.
    destruct ((0 <? epoch_of g _) && (_ <=? g_retention g)) eqn:G; [|discriminate].
    apply andb_true_iff in G as [G1 G2]. apply N.ltb_lt in G1. apply N.leb_le in G2.
    destruct (validate_signatures verify _ _ _) eqn:V; [|discriminate].
    intro E; inversion E; subst. unfold validate_signatures in V.
    destruct (pf_sigs p) as [|s0 sigs] eqn:Es; [discriminate|].
    apply andb_true_iff in V as [V1 V2]. apply Nat.eqb_eq in V1. apply validate_sigs_sound in V2.
    repeat split; auto. discriminate.
  Qed.

  Theorem validate_proof_complete g dh p :
    let w := pf_signers p in
    let sh := signers_hash H w in
    let e := epoch_of g sh in
    0 < e -> g_epoch g - e <= g_retention g ->
    length (ws_signers w) = length (pf_sigs p) -> pf_sigs p <> [] ->
    all_valid (digest H (g_domain g) sh dh) (ws_signers w) (pf_sigs p) ->
    0 < ws_threshold w -> ws_threshold w <= supplied_weight (ws_signers w) (pf_sigs p) ->
    validate_proof H verify g dh p = Some (e =? g_epoch g).
  Proof.
    cbv zeta. intros He Hr HL Hne HV Ht Hw. unfold validate_proof.
    rewrite (proj2 (N.ltb_lt _ _) He), (proj2 (N.leb_le _ _) Hr). cbn [andb].
    unfold validate_signatures. destruct (pf_sigs p) as [|s0 sigs] eqn:Es; [congruence|].
    rewrite HL, Nat.eqb_refl. cbn [andb].
    rewrite validate_sigs_complete; auto.
  Qed.

  (* a set outside the retention window (or never registered) is rejected for every command *)
  Theorem validate_proof_out_of_window g dh p :
    let e := epoch_of g (signers_hash H (pf_signers p)) in
    e = 0 \/ g_retention g < g_epoch g - e -> validate_proof H verify g dh p = None.
  Proof.
    cbv zeta. intro Hc. unfold validate_proof.
    destruct (N.ltb_spec 0 (epoch_of g (signers_hash H (pf_signers p)))) as [L|L]; cbn [andb]; [|reflexivity].
    destruct (N.leb_spec (g_epoch g - epoch_of g (signers_hash H (pf_signers p))) (g_retention g)) as [L2|L2]; [lia | reflexivity].
  Qed.

  Corollary approve_out_of_window g m p pr :
    dec_proof_top p = Some pr ->
    (let e := epoch_of g (signers_hash H (pf_signers pr)) in e = 0 \/ g_retention g < g_epoch g - e) ->
    approve_messages H verify g m p = None.
  Proof.
    intros D Hc. unfold approve_messages. rewrite D.
    destruct (dec_messages_top m) as [[|m0 ms]|]; try reflexivity.
    rewrite validate_proof_out_of_window by exact Hc. reflexivity.
  Qed.

  Corollary rotate_out_of_window g c s p pr :
    dec_proof_top p = Some pr ->
    (let e := epoch_of g (signers_hash H (pf_signers pr)) in e = 0 \/ g_retention g < g_epoch g - e) ->
    rotate_signers H verify g c s p = None.
  Proof.
    intros D Hc. unfold rotate_signers. rewrite D.
    destruct (dec_wsigners_top s); [|reflexivity].
    destruct (bytes_eqb (g_operator g) []); [reflexivity|].
    rewrite validate_proof_out_of_window by exact Hc. reflexivity.
  Qed.

  (* ---------------- approveMessages ---------------- *)
  Theorem approve_sound g m p g' ev :
    Inv g -> approve_messages H verify g m p = Some (g', ev) ->
    exists pr ms,
      dec_proof_top p = Some pr /\ dec_messages_top m = Some ms /\ ms <> [] /\
      let w := pf_signers pr in
      let sh := signers_hash H w in
      let e := epoch_of g sh in
      let D := digest H (g_domain g) sh (data_hash H CMD_APPROVE m) in
      (* registered by this gateway, no more than retention rotations ago *)
      1 <= e <= g_epoch g /\ alookup N.eqb e (g_hash_by_epoch g) = Some sh /\ g_epoch g - e <= g_retention g /\
      (* valid signatures by members of that set, positionally, reaching the threshold, over D *)
      length (ws_signers w) = length (pf_sigs pr) /\
      ws_threshold w <= valid_weight D (ws_signers w) (pf_sigs pr) /\
      (* effect *)
      g' = fst (approve_all H g ms) /\ same_config g g' /\
      (forall k, (forall m0, In m0 ms -> mkey m0 <> k) -> mst g' k = mst g k).
  Proof.
    intros I A. apply approve_messages_inv in A as (pr & ms & Dp & Dm & Hne & V & E).
    exists pr, ms. split; [exact Dp|]. split; [exact Dm|]. split; [exact Hne|]. cbv zeta.
    destruct (validate_proof H verify g (data_hash H CMD_APPROVE m) pr) as [l|] eqn:VP; [|congruence].
    apply validate_proof_sound in VP. cbv zeta in VP. destruct VP as (He & Hr & _ & HL & Hw & _).
    assert (Hg : g' = fst (approve_all H g ms)) by (rewrite <- E; reflexivity).
    destruct I as (I1 & I2 & I3).
    unfold epoch_of in *.
    destruct (alookup bytes_eqb (signers_hash H (pf_signers pr)) (g_epoch_by_hash g)) as [e|] eqn:L; [|lia].
    apply I2 in L as [B L2].
    split; [lia|]. split; [exact L2|]. split; [exact Hr|]. split; [exact HL|]. split; [exact Hw|]. split; [exact Hg|].
    split.
    - subst g'. apply approve_all_config.
    - intros k Hk. subst g'. apply approve_all_other. exact Hk.
  Qed.

  Theorem approve_complete g m p pr ms :
    dec_proof_top p = Some pr -> dec_messages_top m = Some ms -> ms <> [] ->
    let w := pf_signers pr in
    let sh := signers_hash H w in
    let e := epoch_of g sh in
    let D := digest H (g_domain g) sh (data_hash H CMD_APPROVE m) in
    0 < e -> g_epoch g - e <= g_retention g ->
    length (ws_signers w) = length (pf_sigs pr) -> pf_sigs pr <> [] ->
    all_valid D (ws_signers w) (pf_sigs pr) ->
    0 < ws_threshold w -> ws_threshold w <= supplied_weight (ws_signers w) (pf_sigs pr) ->
    approve_messages H verify g m p = Some (approve_all H g ms).
  Proof.
    cbv zeta. intros Dp Dm Hne He Hr HL Hs HV Ht Hw. unfold approve_messages. rewrite Dp, Dm.
    destruct ms as [|m0 ms]; [congruence|].
    rewrite (validate_proof_complete g _ pr) by assumption. reflexivity.
  Qed.

  (* ---------------- rotateSigners ---------------- *)
  Theorem rotate_sound g c s p g' ev :
    Inv g -> rotate_signers H verify g c s p = Some (g', ev) ->
    exists pr w,
      dec_proof_top p = Some pr /\ dec_wsigners_top s = Some w /\
      let sh := signers_hash H (pf_signers pr) in
      let e := epoch_of g sh in
      let D := digest H (g_domain g) sh (data_hash H CMD_ROTATE s) in
      1 <= e <= g_epoch g /\ g_epoch g - e <= g_retention g /\
      ws_threshold (pf_signers pr) <= valid_weight D (ws_signers (pf_signers pr)) (pf_sigs pr) /\
      (* a caller other than the operator: latest set and minimum delay *)
      (c_caller c <> g_operator g -> e = g_epoch g /\ g_min_delay g <= c_now c - g_last_rot g) /\
      (* the new set: well-formed, never registered, epoch + 1 *)
      validate_signers w = true /\
      alookup bytes_eqb (signers_hash H w) (g_epoch_by_hash g) = None /\
      g_epoch g' = g_epoch g + 1 /\
      alookup N.eqb (g_epoch g + 1) (g_hash_by_epoch g') = Some (signers_hash H w) /\
      alookup bytes_eqb (signers_hash H w) (g_epoch_by_hash g') = Some (g_epoch g + 1) /\
      g_last_rot g' = c_now c /\ g_operator g' = g_operator g /\ g_messages g' = g_messages g /\
      g_retention g' = g_retention g /\ g_domain g' = g_domain g /\ g_min_delay g' = g_min_delay g.
  Proof.
    intros I R. apply rotate_signers_inv in R as (pr & w & l & Dp & Dw & Hop & V & Hl & R).
    exists pr, w. split; [exact Dp|]. split; [exact Dw|]. cbv zeta.
    apply validate_proof_sound in V. cbv zeta in V. destruct V as (He & Hr & _ & _ & Hw & Hlat).
    apply rotate_raw_inv in R as (Vs & Hd & Hfresh & -> & _).
    destruct I as (I1 & I2 & I3). unfold epoch_of in *.
    destruct (alookup bytes_eqb (signers_hash H (pf_signers pr)) (g_epoch_by_hash g)) as [e|] eqn:L; [|lia].
    apply I2 in L as [B L2].
    cbn [g_epoch g_hash_by_epoch g_epoch_by_hash g_last_rot g_operator g_messages g_retention g_domain g_min_delay].
    rewrite (alookup_aset_same N.eqb Neqb_spec), (alookup_aset_same bytes_eqb bytes_eqb_eq).
    split; [lia|]. split; [exact Hr|]. split; [exact Hw|]. split.
    { intro Hne. split.
      - specialize (Hl Hne). rewrite Hl in Hlat. symmetry in Hlat. apply N.eqb_eq in Hlat. exact Hlat.
      - apply Hd. apply bytes_eqb_neq in Hne. rewrite Hne. reflexivity. }
    split; [exact Vs|]. split; [exact Hfresh|]. repeat split; reflexivity.
  Qed.

  Theorem rotate_operator_complete g c s p pr w l :
    g_operator g <> [] -> c_caller c = g_operator g ->
    dec_proof_top p = Some pr -> dec_wsigners_top s = Some w ->
    validate_proof H verify g (data_hash H CMD_ROTATE s) pr = Some l ->
    validate_signers w = true ->
    alookup bytes_eqb (signers_hash H w) (g_epoch_by_hash g) = None ->
    exists g' ev, rotate_signers H verify g c s p = Some (g', ev).
  Proof.
    intros Hop Hc Dp Dw V Vs Hf. unfold rotate_signers. rewrite Dp, Dw.
    apply bytes_eqb_neq in Hop. rewrite Hop, V, Hc, bytes_eqb_refl. cbn [negb orb].
    unfold rotate_raw. rewrite Vs, Hf. cbn [negb orb]. eauto.
  Qed.

  (* ---------------- operatorship ---------------- *)
  Theorem operator_changes_only_by_transfer g o :
    g_operator (fst (gstep H verify g o)) <> g_operator g ->
    exists c a, o = GTransferOp c a /\ (c_caller c = g_operator g \/ c_caller c = c_owner c) /\
                a <> zero_addr /\ g_operator (fst (gstep H verify g o)) = a.
  Proof.
    destruct o as [c m p|c s p|c chain id src ph|c a|c chain addr payload|c chain id src contract ph|c chain id]; cbn [gstep].
    - destruct (approve_messages H verify g m p) as [[g' ev]|] eqn:E; cbn [fst]; [|congruence].
      apply approve_messages_inv in E as (pr & ms & _ & _ & _ & _ & E).
      assert (g' = fst (approve_all H g ms)) as -> by (rewrite <- E; reflexivity).
      destruct (approve_all_config H g ms) as (_ & _ & _ & _ & _ & _ & _ & E8). congruence.
    - destruct (rotate_signers H verify g c s p) as [[g' ev]|] eqn:E; cbn [fst]; [|congruence].
      apply rotate_signers_inv in E as (pr & w & l & _ & _ & _ & _ & _ & R).
      apply rotate_raw_inv in R as (_ & _ & _ & -> & _). cbn. congruence.
    - destruct (validate_message H g c chain id src ph) as [[[g' b] ev]|] eqn:E; cbn [fst]; [|congruence].
      apply validate_message_inv in E as (_ & _ & Ht & Hf). destruct b.
      + destruct (Ht eq_refl) as [-> _]. cbn. congruence.
      + destruct (Hf eq_refl) as [-> _]. congruence.
    - destruct (transfer_operatorship g c a) as [[g' ev]|] eqn:E; cbn [fst]; [|congruence].
      unfold transfer_operatorship in E. destruct (negb _ || _); [discriminate|].
      destruct (bytes_eqb (c_caller c) (g_operator g) || bytes_eqb (c_caller c) (c_owner c)) eqn:A; [|discriminate].
      destruct (bytes_eqb a zero_addr) eqn:Z; [discriminate|]. inversion E; subst. cbn. intros _.
      exists c, a. split; [reflexivity|]. split; [|split; [apply bytes_eqb_neq; exact Z | reflexivity]].
      apply orb_true_iff in A as [A|A]; apply bytes_eqb_eq in A; auto.
    - cbn. congruence.
    - destruct (is_message_approved H g chain id src contract ph); cbn; congruence.
    - cbn. congruence.
  Qed.

  (* ---------------- what the digest binds ---------------- *)
  Lemma digest_layout_inj d sh dh d' sh' dh' :
    length d = length d' -> length sh = length sh' ->
    SIGNED_PREFIX ++ d ++ sh ++ dh = SIGNED_PREFIX ++ d' ++ sh' ++ dh' -> d = d' /\ sh = sh' /\ dh = dh'.
  Proof.
    intros L1 L2 E. apply app_inv_head in E. apply app_eq_len in E as [-> E]; [|exact L1].
    apply app_eq_len in E as [-> ->]; [auto | exact L2].
  Qed.

  Lemma data_hash_layout_inj cmd raw cmd' raw' : cmd < 256 -> cmd' < 256 ->
    byte_of_N cmd :: raw = byte_of_N cmd' :: raw' -> cmd = cmd' /\ raw = raw'.
  Proof.
    intros L L' E. inversion E as [[E1 E2]]. split; [|reflexivity].
    apply (f_equal Byte.to_N) in E1. rewrite !to_N_byte_of_N, !N.mod_small in E1 by assumption. exact E1.
  Qed.

  (* Two digests are equal only if (absent a collision on the hashed strings, stated as the
     explicit implications CR1..CR3) domain separator, signer-set encoding, command and batch
     bytes are all equal. *)
  Theorem digest_binding dom w cmd raw dom' w' cmd' raw' :
    length dom = 32%nat -> length dom' = 32%nat -> cmd < 256 -> cmd' < 256 ->
    (forall x, length (H x) = 32%nat) ->
    let P := SIGNED_PREFIX ++ dom ++ signers_hash H w ++ data_hash H cmd raw in
    let P' := SIGNED_PREFIX ++ dom' ++ signers_hash H w' ++ data_hash H cmd' raw' in
    (H P = H P' -> P = P') ->
    (H (enc_wsigners w) = H (enc_wsigners w') -> enc_wsigners w = enc_wsigners w') ->
    (H (byte_of_N cmd :: raw) = H (byte_of_N cmd' :: raw') -> byte_of_N cmd :: raw = byte_of_N cmd' :: raw') ->
    digest H dom (signers_hash H w) (data_hash H cmd raw) = digest H dom' (signers_hash H w') (data_hash H cmd' raw') ->
    dom = dom' /\ enc_wsigners w = enc_wsigners w' /\ cmd = cmd' /\ raw = raw'.
  Proof.
    cbv zeta. intros L L' Lc Lc' HL CR1 CR2 CR3 E. unfold digest in E. apply CR1 in E.
    apply digest_layout_inj in E as (-> & E2 & E3); [| congruence | unfold signers_hash; rewrite !HL; reflexivity].
    unfold signers_hash in E2. apply CR2 in E2. unfold data_hash in E3. apply CR3 in E3.
    apply data_hash_layout_inj in E3 as [-> ->]; auto.
  Qed.
End P.
