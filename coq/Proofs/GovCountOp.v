(* C12, counting over whole histories: each accepted operator approval authorises at most one SUCCESSFUL
   operator dispatch.  Mirror of Proofs/GovCount.v for the approvals table and operator dispatches:

       #successful operator dispatches of h  <=  #accepted approve commands for h
                                                 + [h was approved at the start] + #operator dispatches of h in flight at the start. *)
From Coq Require Import String List NArith Lia Bool.
From Ax Require Import Lib.Bytes Lib.Mvx Model.Check Model.Env Model.Gateway Model.Governance
     Proofs.GovFacts Proofs.GovWorld Proofs.GovCount.
Import ListNotations.
Open Scope N_scope.

Section GovCountOp.
  Variable H : bytes -> bytes.
  Variable verify : bytes -> bytes -> bytes -> bool.
  Notation phash := (proposal_hash H).
  Notation step := (vstep H verify true).

  Definition op_for (p : gpending) (h : bytes) : bool :=
    match gp_kind p with POperator => bytes_eqb (gp_hash p) h | PTimeLock => false end.
  Fixpoint npend_op (h : bytes) (ps : list gpending) : N :=
    match ps with [] => 0 | p :: r => b2n (op_for p h) + npend_op h r end.

  Definition approve_of (w : gworld) (o : vop) (h : bytes) : N :=
    match o with
    | VExecute c chain id src payload =>
        match dec_exec_payload payload with
        | Some p => b2n ((xp_cmd p =? 2) && bytes_eqb (phash (xp_target p) (xp_call_data p) (xp_value p)) h && vo_ok (snd (step w o)))
        | None => 0
        end
    | _ => 0
    end.
  Definition accept_op_of (w : gworld) (o : vop) (h : bytes) : N :=
    match o with
    | VExecOperator c t cd v => b2n (bytes_eqb (phash t cd v) h && vo_ok (snd (step w o)))
    | _ => 0
    end.
  Definition cbo_of (want : bool) (w : gworld) (o : vop) (h : bytes) : N :=
    match o with
    | VCallback _ id =>
        match find_pending id (w_pend w) with
        | Some p => match gp_stage p with
                    | AwaitCallback ok _ => b2n (op_for p h && Bool.eqb ok want)
                    | _ => 0
                    end
        | None => 0
        end
    | _ => 0
    end.

  Notation appr w h := (getN (gv_approvals (w_gov w)) h).

  Lemma tables_appr w w' h : tables w' = tables w -> appr w' h = appr w h.
  Proof. unfold tables. intro E. inversion E as [[A B C D]]. rewrite C. reflexivity. Qed.

  Theorem approval_potential w o h :
    accept_op_of w o h + bnz (appr (fst (step w o)) h) <= approve_of w o h + cbo_of false w o h + bnz (appr w h).
  Proof.
    pose proof (tables_frame H verify w o) as TF.
    destruct o as [go|c chain id src payload|c t cd v|c t cd v|c r a|c a|c tok nonce|self id ok rets|self id];
      try (cbn [accept_op_of approve_of cbo_of]; rewrite (tables_appr _ _ h TF); lia).
    - (* execute *)
      cbn [accept_op_of approve_of cbo_of]. cbn [vstep].
      destruct (run_tx w c (fun w1 => gov_execute H true w1 c chain id src payload)) as [w' out] eqn:R. cbn [fst snd].
      destruct (vo_ok out) eqn:O.
      2:{ apply run_tx_fail in R; [|exact O]. subst. destruct (dec_exec_payload payload); [rewrite andb_false_r|]; cbn [b2n]; lia. }
      apply run_tx_some in R as (l1 & ev & _ & F & _); [|exact O].
      apply gov_execute_spec in F as (_ & _ & _ & _ & _ & _ & _ & p & g' & ev' & D & _ & PC & Eg). cbn [w_gov] in PC.
      rewrite D, Eg. apply process_command_spec in PC. cbv zeta in PC. destruct PC as (_ & _ & Oth & K).
      rewrite andb_true_r.
      destruct (bytes_eqb (phash (xp_target p) (xp_call_data p) (xp_value p)) h) eqn:E.
      + apply bytes_eqb_eq in E. subst h. rewrite andb_true_r.
        destruct (xp_cmd p =? 0) eqn:C0.
        * destruct K as (_ & _ & _ & _ & _ & K & _). rewrite K.
          destruct (xp_cmd p =? 2); cbn [b2n]; lia.
        * destruct (xp_cmd p =? 1) eqn:C1.
          { destruct K as (_ & _ & K & _). rewrite K. destruct (xp_cmd p =? 2); cbn [b2n]; lia. }
          destruct (xp_cmd p =? 2) eqn:C2; cbn [b2n].
          { pose proof (bnz_le1 (getN (gv_approvals g') (phash (xp_target p) (xp_call_data p) (xp_value p)))). lia. }
          destruct K as (K & _). rewrite K, bnz_0. lia.
      + apply bytes_eqb_neq in E. rewrite andb_false_r. cbn [b2n].
        destruct (Oth h) as (_ & _ & A & _); [congruence|]. rewrite A. lia.
    - (* executeProposal: approvals untouched *)
      cbn [accept_op_of approve_of cbo_of]. cbn [vstep].
      destruct (run_tx w c (fun w1 => execute_proposal H true w1 c t cd v)) as [w' out] eqn:R. cbn [fst snd].
      destruct (vo_ok out) eqn:O.
      2:{ apply run_tx_fail in R; [|exact O]. subst. lia. }
      apply run_tx_some in R as (l1 & ev & _ & F & _); [|exact O].
      apply (execute_proposal_spec H) in F. cbv zeta in F. cbn [w_gov] in F.
      destruct F as (_ & _ & _ & _ & E & _). rewrite E. lia.
    - (* executeOperatorProposal *)
      cbn [accept_op_of approve_of cbo_of]. cbn [vstep].
      destruct (run_tx w c (fun w1 => execute_operator_proposal H true w1 c t cd v)) as [w' out] eqn:R. cbn [fst snd].
      destruct (vo_ok out) eqn:O.
      2:{ apply run_tx_fail in R; [|exact O]. subst. rewrite andb_false_r. cbn [b2n]. lia. }
      apply run_tx_some in R as (l1 & ev & _ & F & _); [|exact O].
      apply (execute_operator_proposal_spec H) in F. cbv zeta in F. cbn [w_gov] in F.
      destruct F as (_ & NZ & Z & _ & _ & _ & _ & _ & Oth & _). rewrite andb_true_r.
      destruct (bytes_eqb (phash t cd v) h) eqn:E.
      + apply bytes_eqb_eq in E. subst h. cbn [b2n]. rewrite Z, bnz_0, (bnz_nz _ NZ). lia.
      + apply bytes_eqb_neq in E. cbn [b2n]. destruct (Oth h) as (A & _); [congruence|]. rewrite A. lia.
    - (* callback *)
      cbn [accept_op_of approve_of cbo_of]. cbn [vstep].
      destruct (find_pending id (w_pend w)) as [p|] eqn:F; [|cbn [fst]; lia].
      destruct (gp_stage p) as [|ok rets] eqn:S; [cbn [fst]; lia|].
      destruct (callback true self (w_gov w) p ok rets) as [g' ev] eqn:CB. cbn [fst w_gov].
      apply callback_spec in CB. cbv zeta in CB. destruct CB as (_ & _ & M).
      unfold op_for. destruct (gp_kind p).
      + destruct M as (E & _). rewrite E. cbn [andb b2n]. lia.
      + destruct M as (_ & _ & _ & Oth & Eh).
        destruct (bytes_eqb (gp_hash p) h) eqn:E.
        * apply bytes_eqb_eq in E. subst h. rewrite Eh. destruct ok; cbn [Bool.eqb andb b2n]; [lia|].
          pose proof (bnz_le1 (if getN (gv_op_flight (w_gov w)) (gp_hash p) =? 0 then getN (gv_approvals (w_gov w)) (gp_hash p) else 1)). lia.
        * apply bytes_eqb_neq in E. destruct (Oth h) as (A & _); [congruence|]. rewrite A. cbn [andb b2n]. lia.
  Qed.

  Lemma npend_op_app h a b : npend_op h (a ++ b) = npend_op h a + npend_op h b.
  Proof. induction a as [|p r IH]; cbn [app npend_op]; [reflexivity|]. rewrite IH. lia. Qed.

  Lemma npend_op_replace h ps : forall id p s, find_pending id ps = Some p ->
    npend_op h (replace_pending (with_stage p s) ps) = npend_op h ps.
  Proof.
    induction ps as [|q r IH]; intros id p s F; cbn [find_pending] in F; [discriminate|].
    cbn [replace_pending]. replace (gp_id (with_stage p s)) with (gp_id p) by reflexivity.
    destruct (gp_id q =? id) eqn:E.
    - inversion F; subst q. rewrite N.eqb_refl. cbn [npend_op]. reflexivity.
    - assert (Ep : gp_id p = id).
      { clear IH. induction r as [|x r IHr]; cbn [find_pending] in F; [discriminate|].
        destruct (gp_id x =? id) eqn:Ex; [inversion F; subst; apply N.eqb_eq; exact Ex | apply IHr; exact F]. }
      rewrite Ep, E. cbn [npend_op]. rewrite (IH id p s F). reflexivity.
  Qed.

  Lemma npend_op_remove_le h id ps : npend_op h (remove_pending id ps) <= npend_op h ps.
  Proof. induction ps as [|q r IH]; cbn [remove_pending npend_op]; [lia|]. destruct (gp_id q =? id); cbn [npend_op]; lia. Qed.

  Lemma npend_op_remove h ps : forall id p, find_pending id ps = Some p ->
    npend_op h (remove_pending id ps) + b2n (op_for p h) <= npend_op h ps.
  Proof.
    induction ps as [|q r IH]; intros id p F; cbn [find_pending] in F; [discriminate|].
    cbn [remove_pending npend_op]. destruct (gp_id q =? id) eqn:E.
    - inversion F; subst q. pose proof (npend_op_remove_le h id r). lia.
    - cbn [npend_op]. pose proof (IH id p F). lia.
  Qed.

  Theorem pending_op_potential w o h :
    cbo_of true w o h + cbo_of false w o h + npend_op h (w_pend (fst (step w o))) <= accept_op_of w o h + npend_op h (w_pend w).
  Proof.
    destruct o as [go|c chain id src payload|c t cd v|c t cd v|c r a|c a|c tok nonce|self id ok rets|self id];
      cbn [accept_op_of cbo_of].
    - cbn [vstep]. destruct (gstep H verify (w_gw w) go) as [g' r]. cbn [fst w_pend]. lia.
    - cbn [vstep]. destruct (run_tx w c _) as [w' out] eqn:R. cbn [fst]. destruct (vo_ok out) eqn:O.
      + apply run_tx_some in R as (l1 & ev & _ & F & _); [|exact O].
        apply gov_execute_spec in F as (_ & _ & _ & _ & _ & P & _). rewrite P. cbn [w_pend]. lia.
      + apply run_tx_fail in R; [|exact O]. subst. lia.
    - cbn [vstep]. destruct (run_tx w c (fun w1 => execute_proposal H true w1 c t cd v)) as [w' out] eqn:R. cbn [fst snd].
      destruct (vo_ok out) eqn:O.
      + apply run_tx_some in R as (l1 & ev & _ & F & _); [|exact O].
        apply (execute_proposal_spec H) in F. cbv zeta in F. cbn [w_gov w_pend w_next] in F.
        destruct F as (_ & _ & _ & _ & _ & _ & _ & _ & _ & d & _ & _ & _ & P). rewrite P, npend_op_app. cbn [npend_op op_for gp_kind b2n]. lia.
      + apply run_tx_fail in R; [|exact O]. subst. lia.
    - cbn [vstep]. destruct (run_tx w c (fun w1 => execute_operator_proposal H true w1 c t cd v)) as [w' out] eqn:R. cbn [fst snd].
      destruct (vo_ok out) eqn:O.
      + apply run_tx_some in R as (l1 & ev & _ & F & _); [|exact O].
        apply (execute_operator_proposal_spec H) in F. cbv zeta in F. cbn [w_gov w_pend w_next] in F.
        destruct F as (_ & _ & _ & _ & _ & _ & _ & _ & _ & d & _ & _ & _ & P). rewrite P, npend_op_app. cbn [npend_op op_for gp_kind gp_hash].
        rewrite andb_true_r. lia.
      + apply run_tx_fail in R; [|exact O]. subst. rewrite andb_false_r. cbn [b2n]. lia.
    - cbn [vstep]. destruct (run_tx w c _) as [w' out] eqn:R. cbn [fst]. destruct (vo_ok out) eqn:O.
      + apply run_tx_some in R as (l1 & ev & _ & F & _); [|exact O]. unfold gov_withdraw in F.
        destruct (negb _ || negb _); [discriminate|]. destruct (negb _); [discriminate|].
        destruct (transfer _ _ _ _ _); inversion F; subst. cbn [w_pend]. lia.
      + apply run_tx_fail in R; [|exact O]. subst. lia.
    - cbn [vstep]. destruct (run_tx w c _) as [w' out] eqn:R. cbn [fst]. destruct (vo_ok out) eqn:O.
      + apply run_tx_some in R as (l1 & ev & _ & F & _); [|exact O]. unfold gov_transfer_operatorship in F.
        destruct (negb _ || negb _); [discriminate|]. destruct (negb _); [discriminate|].
        destruct (bytes_eqb a zero32); inversion F; subst. cbn [w_pend]. lia.
      + apply run_tx_fail in R; [|exact O]. subst. lia.
    - cbn [vstep]. destruct (run_tx w c _) as [w' out] eqn:R. cbn [fst]. destruct (vo_ok out) eqn:O.
      + apply run_tx_some in R as (l1 & ev & _ & F & _); [|exact O]. unfold gov_withdraw_refund in F.
        destruct (negb _); [discriminate|]. cbn [w_gov] in F.
        destruct (refund_of _ _ _ _ =? 0); [inversion F; subst; cbn [w_pend]; lia|].
        destruct (transfer _ _ _ _ _); inversion F; subst. cbn [w_pend]. lia.
      + apply run_tx_fail in R; [|exact O]. subst. lia.
    - cbn [vstep]. destruct (find_pending id (w_pend w)) as [p|] eqn:F; [|cbn [fst]; lia].
      destruct (gp_stage p); [|cbn [fst]; lia].
      destruct (if ok then _ else _); cbn [fst w_pend]; [|lia].
      rewrite (npend_op_replace h _ _ _ _ F). lia.
    - cbn [vstep]. destruct (find_pending id (w_pend w)) as [p|] eqn:F; [|cbn [fst]; lia].
      destruct (gp_stage p) as [|ok rets]; [cbn [fst]; lia|].
      destruct (callback true self (w_gov w) p ok rets) as [g' ev]. cbn [fst w_pend].
      pose proof (npend_op_remove h _ _ _ F).
      destruct (op_for p h); destruct ok; cbn [Bool.eqb andb b2n] in *; lia.
  Qed.

  Notation total := (total H verify).

  Theorem approval_potential_history os : forall w h,
    total accept_op_of w os h + bnz (appr (vrun H verify true w os) h) <= total approve_of w os h + total (cbo_of false) w os h + bnz (appr w h).
  Proof.
    induction os as [|o r IH]; intros w h; [cbn; lia|]. rewrite (vrun_cons H verify). cbn [GovCount.total].
    pose proof (approval_potential w o h). pose proof (IH (fst (step w o)) h). lia.
  Qed.
  Theorem pending_op_potential_history os : forall w h,
    total (cbo_of true) w os h + total (cbo_of false) w os h + npend_op h (w_pend (vrun H verify true w os)) <= total accept_op_of w os h + npend_op h (w_pend w).
  Proof.
    induction os as [|o r IH]; intros w h; [cbn; lia|]. rewrite (vrun_cons H verify). cbn [GovCount.total].
    pose proof (pending_op_potential w o h). pose proof (IH (fst (step w o)) h). lia.
  Qed.

  (* each approval authorises at most one successful operator dispatch *)
  Theorem op_successes_bounded_by_approvals os w h :
    total (cbo_of true) w os h <= total approve_of w os h + bnz (appr w h) + npend_op h (w_pend w).
  Proof.
    pose proof (approval_potential_history os w h). pose proof (pending_op_potential_history os w h). lia.
  Qed.
End GovCountOp.
