(* Model of token-manager/src/{lib,flow_limit,mintership}.rs and modules/operatable. *)
From Coq Require Import String Ascii.
From Coq Require Import List Arith NArith Lia Bool.
From Coq Require Import Init.Byte Strings.Byte.
From Ax Require Import Lib.Bytes Lib.Mvx Model.Check Model.Env.
Import ListNotations.
Open Scope N_scope.

(* Roles bitflags (roles.rs) *)
Definition MINTER : N := 1.
Definition OPERATOR : N := 2.
Definition FLOW_LIMITER : N := 4.
Definition EPOCH_TIME : N := 21600.               (* 6 * 3600 *)
Definition ISSUE_COST : N := 50000000000000000.   (* DEFAULT_ESDT_ISSUE_COST *)

(* TokenManagerType *)
Definition T_NATIVE : N := 0.
Definition T_MINT_BURN_FROM : N := 1.
Definition T_LOCK_UNLOCK : N := 2.
Definition T_LOCK_UNLOCK_FEE : N := 3.
Definition T_MINT_BURN : N := 4.

Record tm := {
  tm_service : bytes;
  tm_type : N;
  tm_tid : bytes;                               (* interchain token id *)
  tm_token : bytes;                             (* [] = not set; "EGLD" or an ESDT identifier *)
  tm_roles : list (bytes * N);
  tm_proposed : list ((bytes * bytes) * N);
  tm_limit : N;
  tm_in : list (N * N);                         (* epoch -> flow in *)
  tm_out : list (N * N);
  tm_pending : N                                (* ESDT issuances in flight *)
}.

Record tctx := { t_self : bytes; t_caller : bytes; t_now : N; t_value : callvalue }.

Definition roles_of (t : tm) (a : bytes) : N := match alookup bytes_eqb a (tm_roles t) with Some r => r | None => 0 end.
Definition intersects (r m : N) : bool := negb (N.land r m =? 0).
Definition contains (r m : N) : bool := N.land r m =? m.

Definition with_roles (t : tm) (rs : list (bytes * N)) : tm :=
  {| tm_service := tm_service t; tm_type := tm_type t; tm_tid := tm_tid t; tm_token := tm_token t; tm_roles := rs;
     tm_proposed := tm_proposed t; tm_limit := tm_limit t; tm_in := tm_in t; tm_out := tm_out t; tm_pending := tm_pending t |}.
Definition with_proposed (t : tm) (ps : list ((bytes * bytes) * N)) : tm :=
  {| tm_service := tm_service t; tm_type := tm_type t; tm_tid := tm_tid t; tm_token := tm_token t; tm_roles := tm_roles t;
     tm_proposed := ps; tm_limit := tm_limit t; tm_in := tm_in t; tm_out := tm_out t; tm_pending := tm_pending t |}.
Definition with_limit (t : tm) (l : N) : tm :=
  {| tm_service := tm_service t; tm_type := tm_type t; tm_tid := tm_tid t; tm_token := tm_token t; tm_roles := tm_roles t;
     tm_proposed := tm_proposed t; tm_limit := l; tm_in := tm_in t; tm_out := tm_out t; tm_pending := tm_pending t |}.
Definition with_flows (t : tm) (i o : list (N * N)) : tm :=
  {| tm_service := tm_service t; tm_type := tm_type t; tm_tid := tm_tid t; tm_token := tm_token t; tm_roles := tm_roles t;
     tm_proposed := tm_proposed t; tm_limit := tm_limit t; tm_in := i; tm_out := o; tm_pending := tm_pending t |}.
Definition with_token (t : tm) (tok : bytes) : tm :=
  {| tm_service := tm_service t; tm_type := tm_type t; tm_tid := tm_tid t; tm_token := tok; tm_roles := tm_roles t;
     tm_proposed := tm_proposed t; tm_limit := tm_limit t; tm_in := tm_in t; tm_out := tm_out t; tm_pending := tm_pending t |}.
Definition with_pending (t : tm) (n : N) : tm :=
  {| tm_service := tm_service t; tm_type := tm_type t; tm_tid := tm_tid t; tm_token := tm_token t; tm_roles := tm_roles t;
     tm_proposed := tm_proposed t; tm_limit := tm_limit t; tm_in := tm_in t; tm_out := tm_out t; tm_pending := n |}.

(* events *)
Definition ev (self : bytes) (topics : list bytes) (data : bytes) : log := {| lg_addr := self; lg_topics := topics; lg_data := data |}.

(* add_role / remove_role: event first, then update *)
Definition add_role (self : bytes) (t : tm) (a : bytes) (r : N) : tm * list log :=
  (with_roles t (aset bytes_eqb a (N.lor (roles_of t a) r) (tm_roles t)),
   [ev self [str "roles_added_event"; a] (be_min r)]).
Definition remove_role (self : bytes) (t : tm) (a : bytes) (r : N) : tm * list log :=
  (with_roles t (aset bytes_eqb a (N.ldiff (roles_of t a) r) (tm_roles t)),
   [ev self [str "roles_removed_event"; a] (be_min r)]).

Definition transfer_role (self : bytes) (t : tm) (from to : bytes) (r : N) : option (tm * list log) :=
  if contains (roles_of t from) r then
    let '(t1, e1) := remove_role self t from r in
    let '(t2, e2) := add_role self t1 to r in
    Some (t2, e1 ++ e2)
  else None.

Definition propose_role (self : bytes) (t : tm) (from to : bytes) (r : N) : option (tm * list log) :=
  if contains (roles_of t from) r then
    Some (with_proposed t (aset pair_eqb (from, to) r (tm_proposed t)),
          [ev self [str "roles_proposed_event"; from; to] (be_min r)])
  else None.

Definition proposed_of (t : tm) (from to : bytes) : N :=
  match alookup pair_eqb (from, to) (tm_proposed t) with Some r => r | None => 0 end.

Definition accept_role (self : bytes) (t : tm) (from to : bytes) (r : N) : option (tm * list log) :=
  if negb (proposed_of t from to =? 0) && (proposed_of t from to =? r) then
    transfer_role self (with_proposed t (aset pair_eqb (from, to) 0 (tm_proposed t))) from to r
  else None.

Definition only_role (t : tm) (c : tctx) (r : N) : bool := intersects (roles_of t (t_caller c)) r.

(* flow limit: add_flow(limit, slot_to_add, slot_to_compare, amount) *)
Definition flow_get (m : list (N * N)) (e : N) : N := match alookup N.eqb e m with Some v => v | None => 0 end.
Definition add_flow (limit to_add to_compare amount : N) : option N :=
  if (to_add + amount <=? to_compare + limit) && (amount <=? limit) then Some (to_add + amount) else None.
Definition epoch_of_time (now : N) : N := now / EPOCH_TIME.

Definition add_flow_in (t : tm) (now amount : N) : option tm :=
  if tm_limit t =? 0 then Some t else
  let e := epoch_of_time now in
  match add_flow (tm_limit t) (flow_get (tm_in t) e) (flow_get (tm_out t) e) amount with
  | Some v => Some (with_flows t (aset N.eqb e v (tm_in t)) (tm_out t))
  | None => None
  end.
Definition add_flow_out (t : tm) (now amount : N) : option tm :=
  if tm_limit t =? 0 then Some t else
  let e := epoch_of_time now in
  match add_flow (tm_limit t) (flow_get (tm_out t) e) (flow_get (tm_in t) e) amount with
  | Some v => Some (with_flows t (tm_in t) (aset N.eqb e v (tm_out t)))
  | None => None
  end.

Definition is_mint_type (ty : N) : bool := (ty =? T_NATIVE) || (ty =? T_MINT_BURN) || (ty =? T_MINT_BURN_FROM).

(* result of an endpoint: new manager state, new ledger, return data, logs *)
Definition tres := option (tm * ledger * list bytes * list log).

(* init(service, type, token id, operator option, token option) *)
Definition tm_init (self service : bytes) (ty : N) (tid : bytes) (operator token : option bytes) : option (tm * list log) :=
  if bytes_eqb service zero32 || negb (Nat.eqb (length service) 32) || negb (Nat.eqb (length tid) 32) || (4 <? ty) then None else
  let t0 := {| tm_service := service; tm_type := ty; tm_tid := tid; tm_token := []; tm_roles := []; tm_proposed := [];
               tm_limit := 0; tm_in := []; tm_out := []; tm_pending := 0 |} in
  let op := match operator with Some a => a | None => zero32 end in
  let '(t1, e1) := add_role self t0 op (N.lor FLOW_LIMITER OPERATOR) in
  let '(t2, e2) := add_role self t1 service (N.lor FLOW_LIMITER OPERATOR) in
  let ok := if ty =? T_NATIVE then match token with None => true | Some _ => false end
            else if (ty =? T_LOCK_UNLOCK) || (ty =? T_LOCK_UNLOCK_FEE) then match token with Some _ => true | None => false end
            else match token with Some tk => negb (bytes_eqb tk EGLD) | None => false end in
  if ok then Some (match token with Some tk => with_token t2 tk | None => t2 end, e1 ++ e2) else None.

Definition only_service (t : tm) (c : tctx) : bool := bytes_eqb (t_caller c) (tm_service t).

(* giveToken(destination, amount) : service only; non-payable *)
Definition give_token (t : tm) (l : ledger) (c : tctx) (dest : bytes) (amount : N) : tres :=
  if negb (has_no_value (t_value c)) || negb (Nat.eqb (length dest) 32) then None else
  if negb (only_service t c) then None else
  match add_flow_in t (t_now c) amount with
  | None => None
  | Some t' =>
      let tok := tm_token t in
      if is_mint_type (tm_type t) then
        if bytes_eqb tok [] || bytes_eqb tok EGLD then None else
        match transfer (credit l (t_self c) tok amount) (t_self c) dest tok amount with
        | Some l' => Some (t', l', [tok; be_min amount], [])
        | None => None end
      else
        if bytes_eqb tok [] then None else
        match transfer l (t_self c) dest tok amount with
        | Some l' => Some (t', l', [tok; be_min amount], [])
        | None => None end
  end.

(* takeToken : payable *, service only.  The payment has already been credited to the manager. *)
Definition take_token (t : tm) (l : ledger) (c : tctx) : tres :=
  if negb (only_service t c) then None else
  match egld_or_single_fungible (t_value c) with
  | None => None
  | Some (tok, amount) =>
      if negb (bytes_eqb tok (tm_token t)) then None else
      match add_flow_out t (t_now c) amount with
      | None => None
      | Some t' =>
          if is_mint_type (tm_type t) then
            if bytes_eqb tok EGLD then None else
            match debit l (t_self c) tok amount with
            | Some l' => Some (t', l', [be_min amount], [])
            | None => None end
          else Some (t', l, [be_min amount], [])
      end
  end.

Definition set_flow_limit (t : tm) (l : ledger) (c : tctx) (limit : N) : tres :=
  if negb (has_no_value (t_value c)) then None else
  if only_role t c FLOW_LIMITER then
    Some (with_limit t limit, l, [], [ev (t_self c) [str "flow_limit_set_event"; tm_tid t; t_caller c] (be_min limit)])
  else None.

Definition wrap (l : ledger) (r : option (tm * list log)) : tres :=
  match r with Some (t, e) => Some (t, l, [], e) | None => None end.

Definition nonpay (c : tctx) (r : tres) : tres := if has_no_value (t_value c) then r else None.
Definition addr_ok (a : bytes) : bool := Nat.eqb (length a) 32.

Definition add_flow_limiter t l c a : tres :=
  nonpay c (if addr_ok a && only_role t c OPERATOR then wrap l (Some (add_role (t_self c) t a FLOW_LIMITER)) else None).
Definition remove_flow_limiter t l c a : tres :=
  nonpay c (if addr_ok a && only_role t c OPERATOR then wrap l (Some (remove_role (t_self c) t a FLOW_LIMITER)) else None).
Definition transfer_flow_limiter t l c from to : tres :=
  nonpay c (if addr_ok from && addr_ok to && only_role t c OPERATOR then wrap l (transfer_role (t_self c) t from to FLOW_LIMITER) else None).
Definition transfer_operatorship t l c a : tres :=
  nonpay c (if addr_ok a && only_role t c OPERATOR then wrap l (transfer_role (t_self c) t (t_caller c) a OPERATOR) else None).
Definition propose_operatorship t l c a : tres :=
  nonpay c (if addr_ok a && only_role t c OPERATOR then wrap l (propose_role (t_self c) t (t_caller c) a OPERATOR) else None).
Definition accept_operatorship t l c from : tres :=
  nonpay c (if addr_ok from then wrap l (accept_role (t_self c) t from (t_caller c) OPERATOR) else None).
Definition transfer_mintership t l c a : tres :=
  nonpay c (if addr_ok a && only_role t c MINTER then wrap l (transfer_role (t_self c) t (t_caller c) a MINTER) else None).
Definition propose_mintership t l c a : tres :=
  nonpay c (if addr_ok a && only_role t c MINTER then wrap l (propose_role (t_self c) t (t_caller c) a MINTER) else None).
Definition accept_mintership t l c from : tres :=
  nonpay c (if addr_ok from then wrap l (accept_role (t_self c) t from (t_caller c) MINTER) else None).

(* mint(address, amount): native type, minter, token set *)
Definition tm_mint (t : tm) (l : ledger) (c : tctx) (a : bytes) (amount : N) : tres :=
  nonpay c (
  if negb (addr_ok a) || negb (tm_type t =? T_NATIVE) || negb (only_role t c MINTER) || bytes_eqb (tm_token t) [] then None else
  match transfer (credit l (t_self c) (tm_token t) amount) (t_self c) a (tm_token t) amount with
  | Some l' => Some (t, l', [], [])
  | None => None end).

(* burn: payable *, native type, minter, token set, correct token *)
Definition tm_burn (t : tm) (l : ledger) (c : tctx) : tres :=
  if negb (tm_type t =? T_NATIVE) || negb (only_role t c MINTER) || bytes_eqb (tm_token t) [] then None else
  match egld_or_single_fungible (t_value c) with
  | None => None
  | Some (tok, amount) =>
      if negb (bytes_eqb tok (tm_token t)) then None else
      match debit l (t_self c) tok amount with
      | Some l' => Some (t, l', [], [])
      | None => None end
  end.

(* deployInterchainToken(minter option, name, symbol, decimals): payable EGLD; registers an
   asynchronous ESDT issuance (pending + 1) after granting MINTER to itself and to the minter *)
Definition deploy_interchain_token (t : tm) (l : ledger) (c : tctx) (minter : option bytes) (name symbol : bytes) : tres :=
  if negb (has_no_esdt (t_value c)) then None else
  if negb (tm_type t =? T_NATIVE) || negb (bytes_eqb (tm_token t) []) then None else
  if negb (bytes_eqb (t_caller c) (tm_service t) || intersects (roles_of t (t_caller c)) MINTER) then None else
  if bytes_eqb name [] || bytes_eqb symbol [] then None else
  let '(t1, e1) := add_role (t_self c) t (t_self c) MINTER in
  let '(t2, e2) := add_role (t_self c) t1 (match minter with Some a => a | None => zero32 end) MINTER in
  Some (with_pending t2 (tm_pending t2 + 1), l, [], e1 ++ e2).

(* deploy_token_callback: Ok(token) records the token unless one is already recorded (repaired code:
   a recorded token is never replaced); Err only emits an event *)
Definition deploy_token_callback (t : tm) (self : bytes) (result : option bytes) : tm * list log :=
  match result with
  | Some tok =>
      if bytes_eqb (tm_token t) [] then
        (with_token (with_pending t (tm_pending t - 1)) tok,
         [ev self [str "interchain_token_deployed_event"; tm_tid t; tok] []])
      else (with_pending t (tm_pending t - 1), [])
  | None => (with_pending t (tm_pending t - 1), [ev self [str "interchain_token_deployment_failed"] []])
  end.

(* ---------- raw storage rendering ---------- *)
Definition tm_render (t : tm) : list (bytes * bytes) :=
  nzk (str "interchain_token_service") (tm_service t)
  ++ nzk (str "implementation_type") (be_min (tm_type t))
  ++ nzk (str "interchain_token_id") (tm_tid t)
  ++ nzk (str "token_identifier") (tm_token t)
  ++ nzk (str "flow_limit") (be_min (tm_limit t))
  ++ flat_map (fun '(a, r) => nzk (str "account_roles" ++ a) (be_min r)) (tm_roles t)
  ++ flat_map (fun '((f, to), r) => nzk (str "proposed_roles" ++ f ++ to) (be_min r)) (tm_proposed t)
  ++ flat_map (fun '(e, v) => nzk (str "flow_in_amount" ++ enc_u64 e) (be_min v)) (tm_in t)
  ++ flat_map (fun '(e, v) => nzk (str "flow_out_amount" ++ enc_u64 e) (be_min v)) (tm_out t).

(* ---------- operations of a stand-alone manager world (manager + ledger) ---------- *)
Inductive top :=
| TGive (c : tctx) (dest : bytes) (amount : N)
| TTake (c : tctx)
| TSetLimit (c : tctx) (limit : N)
| TAddFL (c : tctx) (a : bytes)
| TRemoveFL (c : tctx) (a : bytes)
| TTransferFL (c : tctx) (from to : bytes)
| TTransferOp (c : tctx) (a : bytes)
| TProposeOp (c : tctx) (a : bytes)
| TAcceptOp (c : tctx) (from : bytes)
| TTransferMint (c : tctx) (a : bytes)
| TProposeMint (c : tctx) (a : bytes)
| TAcceptMint (c : tctx) (from : bytes)
| TMint (c : tctx) (a : bytes) (amount : N)
| TBurn (c : tctx)
| TDeployToken (c : tctx) (minter : option bytes) (name symbol : bytes)
| TIssueCallback (self : bytes) (result : option bytes).   (* asynchronous: delivered by the scheduler *)

Definition top_ctx (o : top) : option tctx :=
  match o with
  | TGive c _ _ | TTake c | TSetLimit c _ | TAddFL c _ | TRemoveFL c _ | TTransferFL c _ _ | TTransferOp c _
  | TProposeOp c _ | TAcceptOp c _ | TTransferMint c _ | TProposeMint c _ | TAcceptMint c _ | TMint c _ _ | TBurn c
  | TDeployToken c _ _ _ => Some c
  | TIssueCallback _ _ => None
  end.

Definition run_endpoint (t : tm) (l : ledger) (o : top) : tres :=
  match o with
  | TGive c d a => give_token t l c d a
  | TTake c => take_token t l c
  | TSetLimit c v => set_flow_limit t l c v
  | TAddFL c a => add_flow_limiter t l c a
  | TRemoveFL c a => remove_flow_limiter t l c a
  | TTransferFL c f to => transfer_flow_limiter t l c f to
  | TTransferOp c a => transfer_operatorship t l c a
  | TProposeOp c a => propose_operatorship t l c a
  | TAcceptOp c f => accept_operatorship t l c f
  | TTransferMint c a => transfer_mintership t l c a
  | TProposeMint c a => propose_mintership t l c a
  | TAcceptMint c f => accept_mintership t l c f
  | TMint c a v => tm_mint t l c a v
  | TBurn c => tm_burn t l c
  | TDeployToken c m n s => deploy_interchain_token t l c m n s
  | TIssueCallback _ _ => None
  end.

Record tout := { to_ok : bool; to_rets : list bytes; to_logs : list log }.

(* a transaction: attached funds move first; any failure reverts everything *)
Definition tstep (t : tm) (l : ledger) (o : top) : tm * ledger * tout :=
  match o with
  | TIssueCallback self result =>
      if tm_pending t =? 0 then (t, l, {| to_ok := false; to_rets := []; to_logs := [] |}) else
      (* a successful issuance consumes the issue cost held by the manager *)
      let l' := match result with
                | Some _ => match debit l self EGLD ISSUE_COST with Some x => x | None => l end
                | None => l end in
      let '(t', e) := deploy_token_callback t self result in
      (t', l', {| to_ok := true; to_rets := []; to_logs := e |})
  | _ =>
      match top_ctx o with
      | None => (t, l, {| to_ok := false; to_rets := []; to_logs := [] |})
      | Some c =>
          match pay_in l (t_caller c) (t_self c) (t_value c) with
          | None => (t, l, {| to_ok := false; to_rets := []; to_logs := [] |})
          | Some l1 =>
              match run_endpoint t l1 o with
              | Some (t', l', rets, logs) => (t', l', {| to_ok := true; to_rets := rets; to_logs := logs |})
              | None => (t, l, {| to_ok := false; to_rets := []; to_logs := [] |})
              end
          end
      end
  end.
