(* Model of gas-service/src/{lib,events}.rs. *)
From Coq Require Import String Ascii.
From Coq Require Import List Arith NArith Lia Bool.
From Coq Require Import Init.Byte Strings.Byte.
From Ax Require Import Lib.Bytes Lib.Mvx Model.Check Model.Env.
Import ListNotations.
Open Scope N_scope.

Record gs := { gs_collector : bytes }.
Record gsctx := { gc_self : bytes; gc_caller : bytes; gc_owner : bytes; gc_value : callvalue }.

Section WithHash.
  Variable H : bytes -> bytes.

  Definition gev (self : bytes) (topics : list bytes) (data : bytes) : log := {| lg_addr := self; lg_topics := topics; lg_data := data |}.

  (* the eight payment endpoints.  kind: 0 payGasForContractCall, 1 payNativeGasForContractCall,
     2 payGasForExpressCall, 3 payNativeGasForExpressCall *)
  Definition pay_event_name (kind : N) : bytes :=
    if kind =? 0 then str "gas_paid_for_contract_call_event"
    else if kind =? 1 then str "native_gas_paid_for_contract_call_event"
    else if kind =? 2 then str "gas_paid_for_express_call"
    else str "native_gas_paid_for_express_call".
  Definition is_native (kind : N) : bool := (kind =? 1) || (kind =? 3).

  (* received payment of the accepted kind: (token, amount), amount > 0 *)
  Definition received (native : bool) (v : callvalue) : option (bytes * N) :=
    if native then
      (if has_no_esdt v then (if 0 <? cv_egld v then Some (EGLD, cv_egld v) else None) else None)
    else
      match single_fungible_esdt v with
      | Some (tok, amt) => if (cv_egld v =? 0) && (0 <? amt) then Some (tok, amt) else None
      | None => None
      end.

  Definition pay_gas (kind : N) (c : gsctx) (sender chain daddr payload refund : bytes) : option (list log) :=
    if negb (Nat.eqb (length sender) 32) || negb (Nat.eqb (length refund) 32) then None else
    match received (is_native kind) (gc_value c) with
    | None => None
    | Some (tok, amt) =>
        let data := if is_native kind then H payload ++ enc_big amt ++ refund
                    else H payload ++ enc_buf tok ++ enc_big amt ++ refund in
        Some [gev (gc_self c) [pay_event_name kind; sender; chain; daddr] data]
    end.

  (* kind: 0 addGas, 1 addNativeGas, 2 addExpressGas, 3 addNativeExpressGas *)
  Definition add_event_name (kind : N) : bytes :=
    if kind =? 0 then str "gas_added_event"
    else if kind =? 1 then str "native_gas_added_event"
    else if kind =? 2 then str "express_gas_added_event"
    else str "native_express_gas_added_event".

  Definition add_gas (kind : N) (c : gsctx) (txhash : bytes) (logidx : N) (refund : bytes) : option (list log) :=
    if negb (Nat.eqb (length refund) 32) then None else
    match received (is_native kind) (gc_value c) with
    | None => None
    | Some (tok, amt) =>
        let data := if is_native kind then enc_big amt ++ refund else enc_buf tok ++ enc_big amt ++ refund in
        Some [gev (gc_self c) [add_event_name kind; txhash; be_min logidx] data]
    end.

  (* collectFees: collector only; every amount > 0; an entry above the CURRENT balance is skipped *)
  Fixpoint collect_loop (l : ledger) (self receiver : bytes) (items : list (bytes * N)) : option ledger :=
    match items with
    | [] => Some l
    | (tok, amt) :: r =>
        if amt =? 0 then None else
        if amt <=? bal l self tok then
          match transfer l self receiver tok amt with
          | Some l' => collect_loop l' self receiver r
          | None => None
          end
        else collect_loop l self receiver r
    end.

  Definition collect_fees (s : gs) (l : ledger) (c : gsctx) (receiver : bytes) (tokens : list bytes) (amounts : list N) : option ledger :=
    if negb (has_no_value (gc_value c)) || negb (Nat.eqb (length receiver) 32) then None else
    if negb (bytes_eqb (gc_caller c) (gs_collector s)) then None else
    if bytes_eqb receiver zero32 then None else
    if negb (Nat.eqb (length tokens) (length amounts)) then None else
    collect_loop l (gc_self c) receiver (combine tokens amounts).

  Definition refund (s : gs) (l : ledger) (c : gsctx) (txhash : bytes) (logidx : N) (receiver token : bytes) (amount : N)
    : option (ledger * list log) :=
    if negb (has_no_value (gc_value c)) || negb (Nat.eqb (length receiver) 32) then None else
    if negb (bytes_eqb (gc_caller c) (gs_collector s)) then None else
    if bytes_eqb receiver zero32 then None else
    match transfer l (gc_self c) receiver token amount with
    | Some l' => Some (l', [gev (gc_self c) [str "refunded_event"; txhash; be_min logidx] (receiver ++ enc_buf token ++ enc_big amount)])
    | None => None
    end.

  Definition set_gas_collector (s : gs) (c : gsctx) (a : bytes) : option gs :=
    if negb (has_no_value (gc_value c)) || negb (Nat.eqb (length a) 32) then None else
    if bytes_eqb (gc_caller c) (gs_collector s) || bytes_eqb (gc_caller c) (gc_owner c)
    then Some {| gs_collector := a |} else None.

  Inductive gsop :=
  | GSPay (kind : N) (c : gsctx) (sender chain daddr payload refund : bytes)
  | GSAdd (kind : N) (c : gsctx) (txhash : bytes) (logidx : N) (refund : bytes)
  | GSCollect (c : gsctx) (receiver : bytes) (tokens : list bytes) (amounts : list N)
  | GSRefund (c : gsctx) (txhash : bytes) (logidx : N) (receiver token : bytes) (amount : N)
  | GSSetCollector (c : gsctx) (a : bytes).

  Definition gsop_ctx (o : gsop) : gsctx :=
    match o with GSPay _ c _ _ _ _ _ | GSAdd _ c _ _ _ | GSCollect c _ _ _ | GSRefund c _ _ _ _ _ | GSSetCollector c _ => c end.

  Record gsout := { go_ok : bool; go_logs : list log }.
  Definition gfail : gsout := {| go_ok := false; go_logs := [] |}.

  (* one transaction: attached funds first; failure reverts everything *)
  Definition gsstep (s : gs) (l : ledger) (o : gsop) : gs * ledger * gsout :=
    let c := gsop_ctx o in
    match pay_in l (gc_caller c) (gc_self c) (gc_value c) with
    | None => (s, l, gfail)
    | Some l1 =>
        match o with
        | GSPay kind _ sender chain daddr payload rf =>
            match pay_gas kind c sender chain daddr payload rf with
            | Some ev => (s, l1, {| go_ok := true; go_logs := ev |}) | None => (s, l, gfail) end
        | GSAdd kind _ txhash logidx rf =>
            match add_gas kind c txhash logidx rf with
            | Some ev => (s, l1, {| go_ok := true; go_logs := ev |}) | None => (s, l, gfail) end
        | GSCollect _ receiver tokens amounts =>
            match collect_fees s l1 c receiver tokens amounts with
            | Some l' => (s, l', {| go_ok := true; go_logs := [] |}) | None => (s, l, gfail) end
        | GSRefund _ txhash logidx receiver token amount =>
            match refund s l1 c txhash logidx receiver token amount with
            | Some (l', ev) => (s, l', {| go_ok := true; go_logs := ev |}) | None => (s, l, gfail) end
        | GSSetCollector _ a =>
            match set_gas_collector s c a with
            | Some s' => (s', l1, {| go_ok := true; go_logs := [] |}) | None => (s, l, gfail) end
        end
    end.

  Definition gs_render (s : gs) : list (bytes * bytes) := nzk (str "gas_collector") (gs_collector s).
End WithHash.

(* ---------- correspondence checker ---------- *)
From Ax Require Import Lib.Keccak.
Record gsexpect := { gx_ok : bool; gx_logs : list log; gx_sd : list kv; gx_bd : list (bytes * bytes * N) }.

Definition gscompare (tracked : list bytes) (pre post : gs) (lpre lpost : ledger) (o : gsout) (x : gsexpect) : N :=
  (if bool_eqb (go_ok o) (gx_ok x) then 0 else 1)
  + (if list_eqb log_eqb (go_logs o) (gx_logs x) then 0 else 4)
  + (if sdiff_ok (gs_render pre) (gs_render post) (gx_sd x) then 0 else 8)
  + (if bdiff_ok tracked lpre lpost (gx_bd x) then 0 else 16).

Fixpoint gscheck_steps (tracked : list bytes) (s : gs) (l : ledger) (steps : list (gsop * gsexpect)) : list N :=
  match steps with
  | [] => []
  | (o, x) :: r =>
      let '(s', l', out) := gsstep keccak256 s l o in
      gscompare tracked s s' l l' out x :: gscheck_steps tracked s' l' r
  end.

Definition gscheck_trace (tracked : list bytes) (l0 : ledger) (collector : bytes) (xinit : gsexpect) (steps : list (gsop * gsexpect)) : list N :=
  let s0 := {| gs_collector := collector |} in
  gscompare tracked {| gs_collector := [] |} s0 l0 l0 {| go_ok := true; go_logs := [] |} xinit :: gscheck_steps tracked s0 l0 steps.
