(* Model of governance/src/lib.rs together with the gateway it consults, the ledger and the
   pending promises (destination call and callback are separate, harness-scheduled steps).
   The flag [fx] selects the repaired code (in-flight markers, see known_findings.json):
   fx = true is the current source; fx = false is the source before the "fix:" commits and is
   kept only to exhibit the refuted statements. *)
From Coq Require Import String Ascii.
From Coq Require Import List Arith NArith Lia Bool.
From Coq Require Import Init.Byte Strings.Byte.
From Ax Require Import Lib.Bytes Lib.Mvx Model.Check Model.Env Model.Gateway.
Import ListNotations.
Open Scope N_scope.

Definition GAS_LEFT : N := 1000000000.                    (* gas limit the harness gives every transaction *)
Definition CALLBACK_GAS : N := 10000000.
Definition CALLBACK_GAS_PER_PAYMENT : N := 2000000.
Definition KEEP_EXTRA_GAS : N := 15000000.

Record gov := {
  gv_gateway : bytes; gv_chain : bytes; gv_address : bytes; gv_min_delay : N; gv_operator : bytes;
  gv_eta : list (bytes * N);                      (* time_lock_eta(hash); 0 = empty *)
  gv_tl_flight : list (bytes * N);                (* time_lock_in_flight(hash) (repaired code only) *)
  gv_approvals : list (bytes * N);                (* operator_approvals(hash): 1 = true *)
  gv_op_flight : list (bytes * N);                (* operator_in_flight(hash) (repaired code only) *)
  gv_refunds : list ((bytes * (bytes * N)) * N)   (* refund_token(user, (token, nonce)) *)
}.

Inductive pkind := PTimeLock | POperator.
Inductive pstage := AwaitCall | AwaitCallback (ok : bool) (rets : list bytes).

Record gpending := {
  gp_id : N; gp_kind : pkind; gp_hash : bytes; gp_eta : N; gp_caller : bytes; gp_pay : callvalue;
  gp_target : bytes; gp_endpoint : bytes; gp_args : list bytes; gp_value : N; gp_stage : pstage
}.

Record gworld := { w_gw : gw; w_gov : gov; w_led : ledger; w_pend : list gpending; w_next : N }.

Definition getN (m : list (bytes * N)) (h : bytes) : N := match alookup bytes_eqb h m with Some v => v | None => 0 end.
Definition rkey_eqb (a b : bytes * (bytes * N)) : bool :=
  bytes_eqb (fst a) (fst b) && bytes_eqb (fst (snd a)) (fst (snd b)) && (snd (snd a) =? snd (snd b)).
Definition refund_of (g : gov) (u tok : bytes) (nonce : N) : N :=
  match alookup rkey_eqb (u, (tok, nonce)) (gv_refunds g) with Some v => v | None => 0 end.

Definition upd (g : gov) eta tlf app opf rf op : gov :=
  {| gv_gateway := gv_gateway g; gv_chain := gv_chain g; gv_address := gv_address g; gv_min_delay := gv_min_delay g;
     gv_operator := op; gv_eta := eta; gv_tl_flight := tlf; gv_approvals := app; gv_op_flight := opf; gv_refunds := rf |}.
Definition set_eta g h v := upd g (aset bytes_eqb h v (gv_eta g)) (gv_tl_flight g) (gv_approvals g) (gv_op_flight g) (gv_refunds g) (gv_operator g).
Definition set_tlf g h v := upd g (gv_eta g) (aset bytes_eqb h v (gv_tl_flight g)) (gv_approvals g) (gv_op_flight g) (gv_refunds g) (gv_operator g).
Definition set_app g h v := upd g (gv_eta g) (gv_tl_flight g) (aset bytes_eqb h v (gv_approvals g)) (gv_op_flight g) (gv_refunds g) (gv_operator g).
Definition set_opf g h v := upd g (gv_eta g) (gv_tl_flight g) (gv_approvals g) (aset bytes_eqb h v (gv_op_flight g)) (gv_refunds g) (gv_operator g).
Definition set_refund g u tok nonce v :=
  upd g (gv_eta g) (gv_tl_flight g) (gv_approvals g) (gv_op_flight g) (aset rkey_eqb (u, (tok, nonce)) v (gv_refunds g)) (gv_operator g).
Definition set_op g a := upd g (gv_eta g) (gv_tl_flight g) (gv_approvals g) (gv_op_flight g) (gv_refunds g) a.

(* ---------- decoding ---------- *)
Record call_data := { cd_endpoint : bytes; cd_args : list bytes; cd_min_gas : N }.
Definition dec_call_data (b : bytes) : option call_data :=
  match dec_buf b with
  | Some (ep, r1) =>
      match dec_vec dec_buf r1 with
      | Some (args, r2) =>
          match dec_u64 r2 with
          | Some (g, []) => Some {| cd_endpoint := ep; cd_args := args; cd_min_gas := g |}
          | _ => None end
      | None => None end
  | None => None
  end.

Record exec_payload := { xp_cmd : N; xp_target : bytes; xp_call_data : bytes; xp_value : N; xp_eta : N }.
Definition dec_exec_payload (b : bytes) : option exec_payload :=
  match dec_u8 b with
  | Some (cmd, r1) =>
      if 3 <? cmd then None else
      match dec_fixed 32 r1 with
      | Some (t, r2) =>
          match dec_buf r2 with
          | Some (cd, r3) =>
              match dec_big r3 with
              | Some (v, r4) =>
                  match dec_u64 r4 with
                  | Some (eta, []) => Some {| xp_cmd := cmd; xp_target := t; xp_call_data := cd; xp_value := v; xp_eta := eta |}
                  | _ => None end
              | None => None end
          | None => None end
      | None => None end
  | None => None
  end.

Section WithCrypto.
  Variable H : bytes -> bytes.
  Variable verify : bytes -> bytes -> bytes -> bool.
  Variable fx : bool.

  Definition enc_proposal (target call_data : bytes) (value : N) : bytes := target ++ enc_buf call_data ++ enc_big value.
  Definition proposal_hash (target call_data : bytes) (value : N) : bytes := H (enc_proposal target call_data value).

  Definition gev (self : bytes) (topics : list bytes) (data : bytes) : log := {| lg_addr := self; lg_topics := topics; lg_data := data |}.
  Definition prop_data (cd : bytes) (v : N) : bytes := enc_buf cd ++ enc_big v.

  Record xctx := { x_self : bytes; x_caller : bytes; x_now : N; x_value : callvalue }.

  (* process_command *)
  Definition process_command (self : bytes) (g : gov) (now : N) (p : exec_payload) : option (gov * list log) :=
    let h := proposal_hash (xp_target p) (xp_call_data p) (xp_value p) in
    let d := prop_data (xp_call_data p) (xp_value p) in
    if xp_cmd p =? 0 then
      (* ScheduleTimeLockProposal *)
      if negb (getN (gv_eta g) h =? 0) then None else
      if fx && negb (getN (gv_tl_flight g) h =? 0) then None else
      let min_eta := now + gv_min_delay g in
      let eta := if xp_eta p <? min_eta then min_eta else xp_eta p in
      Some (set_eta g h eta, [gev self [str "proposal_scheduled_event"; h; xp_target p; be_min eta] d])
    else if xp_cmd p =? 1 then
      (* CancelTimeLockProposal: the repaired code also forgets an in-flight dispatch *)
      let g1 := set_eta g h 0 in
      let g2 := if fx then set_tlf g1 h 0 else g1 in
      Some (g2, [gev self [str "proposal_cancelled_event"; h; xp_target p; be_min (xp_eta p)] d])
    else if xp_cmd p =? 2 then
      Some (set_app g h 1, [gev self [str "operator_approved_event"; h; xp_target p] d])
    else
      let g1 := set_app g h 0 in
      let g2 := if fx then set_opf g1 h 0 else g1 in
      Some (g2, [gev self [str "operator_cancelled_event"; h; xp_target p] d]).

  (* execute(source_chain, message_id, source_address, payload): consumes the gateway approval *)
  Definition gov_execute (w : gworld) (c : xctx) (chain id src payload : bytes) : option (gworld * list log) :=
    if negb (has_no_value (x_value c)) then None else
    let g := w_gov w in
    if negb (bytes_eqb chain (gv_chain g) && bytes_eqb src (gv_address g)) then None else
    let ph := H payload in
    match validate_message H (w_gw w) {| c_caller := x_self c; c_owner := []; c_now := x_now c |} chain id src ph with
    | Some (gw', true, gwev) =>
        match dec_exec_payload payload with
        | None => None
        | Some p =>
            if bytes_eqb (xp_target p) zero32 then None else
            match process_command (x_self c) g (x_now c) p with
            | Some (g', ev) =>
                Some ({| w_gw := gw'; w_gov := g'; w_led := w_led w; w_pend := w_pend w; w_next := w_next w |},
                      map (fun e => {| lg_addr := gv_gateway g; lg_topics := ev_topics e; lg_data := ev_data e |}) gwev ++ ev)
            | None => None
            end
        end
    | _ => None
    end.

  Definition n_esdt (v : callvalue) : N := Nlen (cv_esdt v).

  (* executeProposal / executeOperatorProposal: registers a promise *)
  Definition dispatch (w : gworld) (c : xctx) (kind : pkind) (h : bytes) (eta : N) (g' : gov) (target call_data : bytes) (value : N)
             (evname : bytes) : option (gworld * list log) :=
    match dec_call_data call_data with
    | None => None
    | Some cd =>
        let extra := CALLBACK_GAS + (if has_no_esdt (x_value c) then 0 else CALLBACK_GAS_PER_PAYMENT * n_esdt (x_value c)) in
        if negb (extra + KEEP_EXTRA_GAS + cd_min_gas cd <? GAS_LEFT) then None else
        let p := {| gp_id := w_next w; gp_kind := kind; gp_hash := h; gp_eta := eta; gp_caller := x_caller c; gp_pay := x_value c;
                    gp_target := target; gp_endpoint := cd_endpoint cd; gp_args := cd_args cd; gp_value := value; gp_stage := AwaitCall |} in
        Some ({| w_gw := w_gw w; w_gov := g'; w_led := w_led w; w_pend := w_pend w ++ [p]; w_next := w_next w + 1 |},
              [gev (x_self c) [evname; h; target] (prop_data call_data value)])
    end.

  Definition execute_proposal (w : gworld) (c : xctx) (target call_data : bytes) (value : N) : option (gworld * list log) :=
    if negb (Nat.eqb (length target) 32) then None else
    let g := w_gov w in
    let h := proposal_hash target call_data value in
    let eta := getN (gv_eta g) h in
    if eta =? 0 then None else
    if x_now c <? eta then None else
    let g1 := set_eta g h 0 in
    let g2 := if fx then set_tlf g1 h 1 else g1 in
    dispatch w c PTimeLock h eta g2 target call_data value (str "proposal_executed_event").

  Definition execute_operator_proposal (w : gworld) (c : xctx) (target call_data : bytes) (value : N) : option (gworld * list log) :=
    if negb (Nat.eqb (length target) 32) then None else
    let g := w_gov w in
    if negb (bytes_eqb (x_caller c) (gv_operator g)) then None else
    let h := proposal_hash target call_data value in
    if getN (gv_approvals g) h =? 0 then None else
    let g1 := set_app g h 0 in
    let g2 := if fx then set_opf g1 h 1 else g1 in
    dispatch w c POperator h 0 g2 target call_data value (str "operator_proposal_executed_event").

  Definition gov_withdraw (w : gworld) (c : xctx) (recipient : bytes) (amount : N) : option (gworld * list log) :=
    if negb (has_no_value (x_value c)) || negb (Nat.eqb (length recipient) 32) then None else
    if negb (bytes_eqb (x_caller c) (x_self c)) then None else
    match transfer (w_led w) (x_self c) recipient EGLD amount with
    | Some l' => Some ({| w_gw := w_gw w; w_gov := w_gov w; w_led := l'; w_pend := w_pend w; w_next := w_next w |}, [])
    | None => None
    end.

  Definition gov_transfer_operatorship (w : gworld) (c : xctx) (a : bytes) : option (gworld * list log) :=
    if negb (has_no_value (x_value c)) || negb (Nat.eqb (length a) 32) then None else
    let g := w_gov w in
    if negb (bytes_eqb (x_caller c) (gv_operator g) || bytes_eqb (x_caller c) (x_self c)) then None else
    if bytes_eqb a zero32 then None else
    Some ({| w_gw := w_gw w; w_gov := set_op g a; w_led := w_led w; w_pend := w_pend w; w_next := w_next w |},
          [gev (x_self c) [str "operatorship_transferred_event"; gv_operator g] a]).

  (* withdrawRefundToken(token, nonce): the whole credit of the caller, once *)
  Definition gov_withdraw_refund (w : gworld) (c : xctx) (tok : bytes) (nonce : N) : option (gworld * list log) :=
    if negb (has_no_value (x_value c)) then None else
    let g := w_gov w in
    let v := refund_of g (x_caller c) tok nonce in
    let g' := set_refund g (x_caller c) tok nonce 0 in
    if v =? 0 then Some ({| w_gw := w_gw w; w_gov := g'; w_led := w_led w; w_pend := w_pend w; w_next := w_next w |}, []) else
    match transfer (w_led w) (x_self c) (x_caller c) (ltok tok nonce) v with
    | Some l' => Some ({| w_gw := w_gw w; w_gov := g'; w_led := l'; w_pend := w_pend w; w_next := w_next w |}, [])
    | None => None
    end.

  (* handle_callback_failure *)
  Fixpoint credit_esdts (g : gov) (u : bytes) (ps : list esdt_pay) : gov :=
    match ps with
    | [] => g
    | p :: r => credit_esdts (set_refund g u (ep_token p) (ep_nonce p) (refund_of g u (ep_token p) (ep_nonce p) + ep_amount p)) u r
    end.
  Definition credit_failure (g : gov) (u : bytes) (v : callvalue) : gov :=
    match cv_esdt v with
    | [] => set_refund g u EGLD 0 (refund_of g u EGLD 0 + cv_egld v)
    | ps => credit_esdts g u ps
    end.

  Definition callback (self : bytes) (g : gov) (p : gpending) (ok : bool) (rets : list bytes) : gov * list log :=
    match gp_kind p with
    | PTimeLock =>
        if ok then ((if fx then set_tlf g (gp_hash p) 0 else g),
                    [gev self ([str "execute_proposal_success_event"; gp_hash p] ++ rets) []])
        else
          let g1 := credit_failure g (gp_caller p) (gp_pay p) in
          let g2 := if fx then (if getN (gv_tl_flight g1) (gp_hash p) =? 0 then g1
                                else set_tlf (set_eta g1 (gp_hash p) (gp_eta p)) (gp_hash p) 0)
                    else set_eta g1 (gp_hash p) (gp_eta p) in
          (g2, [gev self [str "execute_proposal_error_event"; gp_hash p] []])
    | POperator =>
        if ok then ((if fx then set_opf g (gp_hash p) 0 else g),
                    [gev self ([str "operator_execute_proposal_success_event"; gp_hash p] ++ rets) []])
        else
          let g1 := credit_failure g (gp_caller p) (gp_pay p) in
          let g2 := if fx then (if getN (gv_op_flight g1) (gp_hash p) =? 0 then g1
                                else set_opf (set_app g1 (gp_hash p) 1) (gp_hash p) 0)
                    else set_app g1 (gp_hash p) 1 in
          (g2, [gev self [str "operator_execute_proposal_error_event"; gp_hash p] []])
    end.

  (* ---------- operations of the governance world ---------- *)
  Inductive vop :=
  | VGateway (o : gop)                                            (* any gateway operation (approvals come from here) *)
  | VExecute (c : xctx) (chain id src payload : bytes)
  | VExecProposal (c : xctx) (target call_data : bytes) (value : N)
  | VExecOperator (c : xctx) (target call_data : bytes) (value : N)
  | VWithdraw (c : xctx) (recipient : bytes) (amount : N)
  | VTransferOp (c : xctx) (a : bytes)
  | VWithdrawRefund (c : xctx) (tok : bytes) (nonce : N)
  | VDeliver (self : bytes) (id : N) (ok : bool) (rets : list bytes)   (* the destination call, outcome chosen by the environment *)
  | VCallback (self : bytes) (id : N).

  Record vout := { vo_ok : bool; vo_rets : list bytes; vo_logs : list log }.
  Definition vfail : vout := {| vo_ok := false; vo_rets := []; vo_logs := [] |}.

  Fixpoint find_pending (id : N) (ps : list gpending) : option gpending :=
    match ps with [] => None | p :: r => if gp_id p =? id then Some p else find_pending id r end.
  Fixpoint remove_pending (id : N) (ps : list gpending) : list gpending :=
    match ps with [] => [] | p :: r => if gp_id p =? id then remove_pending id r else p :: remove_pending id r end.
  Fixpoint replace_pending (q : gpending) (ps : list gpending) : list gpending :=
    match ps with [] => [] | p :: r => if gp_id p =? gp_id q then q :: r else p :: replace_pending q r end.

  Definition with_stage (p : gpending) (s : pstage) : gpending :=
    {| gp_id := gp_id p; gp_kind := gp_kind p; gp_hash := gp_hash p; gp_eta := gp_eta p; gp_caller := gp_caller p; gp_pay := gp_pay p;
       gp_target := gp_target p; gp_endpoint := gp_endpoint p; gp_args := gp_args p; gp_value := gp_value p; gp_stage := s |}.

  Definition run_tx (w : gworld) (c : xctx) (f : gworld -> option (gworld * list log)) : gworld * vout :=
    match pay_in (w_led w) (x_caller c) (x_self c) (x_value c) with
    | None => (w, vfail)
    | Some l1 =>
        match f {| w_gw := w_gw w; w_gov := w_gov w; w_led := l1; w_pend := w_pend w; w_next := w_next w |} with
        | Some (w', ev) => (w', {| vo_ok := true; vo_rets := []; vo_logs := ev |})
        | None => (w, vfail)
        end
    end.

  Definition vstep (w : gworld) (o : vop) : gworld * vout :=
    match o with
    | VGateway go =>
        let '(g', r) := gstep H verify (w_gw w) go in
        ({| w_gw := g'; w_gov := w_gov w; w_led := w_led w; w_pend := w_pend w; w_next := w_next w |},
         {| vo_ok := r_ok r; vo_rets := r_rets r;
            vo_logs := map (fun e => {| lg_addr := gv_gateway (w_gov w); lg_topics := ev_topics e; lg_data := ev_data e |}) (r_events r) |})
    | VExecute c chain id src payload => run_tx w c (fun w1 => gov_execute w1 c chain id src payload)
    | VExecProposal c t cd v => run_tx w c (fun w1 => execute_proposal w1 c t cd v)
    | VExecOperator c t cd v => run_tx w c (fun w1 => execute_operator_proposal w1 c t cd v)
    | VWithdraw c r a => run_tx w c (fun w1 => gov_withdraw w1 c r a)
    | VTransferOp c a => run_tx w c (fun w1 => gov_transfer_operatorship w1 c a)
    | VWithdrawRefund c tok nonce => run_tx w c (fun w1 => gov_withdraw_refund w1 c tok nonce)
    | VDeliver self id ok rets =>
        match find_pending id (w_pend w) with
        | Some p =>
            match gp_stage p with
            | AwaitCall =>
                (* a successful call takes the proposal's native value out of the contract; without funds it fails *)
                match (if ok then transfer (w_led w) self (gp_target p) EGLD (gp_value p) else Some (w_led w)) with
                | Some l' =>
                    ({| w_gw := w_gw w; w_gov := w_gov w; w_led := l'; w_pend := replace_pending (with_stage p (AwaitCallback ok rets)) (w_pend w); w_next := w_next w |},
                     {| vo_ok := true; vo_rets := []; vo_logs := [] |})
                | None => (w, vfail)
                end
            | _ => (w, vfail)
            end
        | None => (w, vfail)
        end
    | VCallback self id =>
        match find_pending id (w_pend w) with
        | Some p =>
            match gp_stage p with
            | AwaitCallback ok rets =>
                let '(g', ev) := callback self (w_gov w) p ok rets in
                ({| w_gw := w_gw w; w_gov := g'; w_led := w_led w; w_pend := remove_pending id (w_pend w); w_next := w_next w |},
                 {| vo_ok := true; vo_rets := []; vo_logs := ev |})
            | _ => (w, vfail)
            end
        | None => (w, vfail)
        end
    end.

  Definition vrun (w : gworld) (ops : list vop) : gworld := fold_left (fun s o => fst (vstep s o)) ops w.

  (* ---------- storage rendering of the governance contract ---------- *)
  Definition gov_render (g : gov) : list (bytes * bytes) :=
    nzk (str "gateway") (gv_gateway g)
    ++ nzk (str "minimum_time_lock_delay") (be_min (gv_min_delay g))
    ++ nzk (str "governance_chain") (gv_chain g)
    ++ nzk (str "governance_address") (gv_address g)
    ++ nzk (str "operator") (gv_operator g)
    ++ flat_map (fun '(h, v) => nzk (str "time_lock_eta" ++ h) (be_min v)) (gv_eta g)
    ++ flat_map (fun '(h, v) => nzk (str "time_lock_in_flight" ++ h) (be_min v)) (gv_tl_flight g)
    ++ flat_map (fun '(h, v) => nzk (str "operator_approvals" ++ h) (be_min v)) (gv_approvals g)
    ++ flat_map (fun '(h, v) => nzk (str "operator_in_flight" ++ h) (be_min v)) (gv_op_flight g)
    ++ flat_map (fun '((u, (tok, nonce)), v) => nzk (str "refund_token" ++ u ++ enc_buf tok ++ enc_u64 nonce) (be_min v)) (gv_refunds g).
End WithCrypto.
