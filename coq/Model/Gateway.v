(* Model of gateway/src/{lib,auth,operator,constants}.rs.
   The hash function and the ed25519 verifier are Section variables: theorems hold
   for every H and verify; the correspondence instantiates keccak-256 and an oracle
   table of honestly produced signatures. *)
From Coq Require Import String Ascii.
From Coq Require Import List Arith NArith Lia Bool.
From Coq Require Import Init.Byte Strings.Byte.
From Ax Require Import Lib.Bytes Lib.Mvx.
Import ListNotations.
Open Scope N_scope.

Record signer := { s_key : bytes; s_weight : N }.
Record wsigners := { ws_signers : list signer; ws_threshold : N; ws_nonce : bytes }.
Record message := { m_chain : bytes; m_id : bytes; m_src : bytes; m_contract : bytes; m_ph : bytes }.
Record proof := { pf_signers : wsigners; pf_sigs : list (option bytes) }.

Inductive mstate := MApproved (h : bytes) | MExecuted.     (* absent = NonExistent *)

Record gw := {
  g_epoch : N;
  g_last_rot : N;
  g_hash_by_epoch : list (N * bytes);
  g_epoch_by_hash : list (bytes * N);
  g_retention : N;
  g_domain : bytes;
  g_min_delay : N;
  g_operator : bytes;                         (* [] when never set: operator().get() then fails (storage decode error) *)
  g_messages : list ((bytes * bytes) * mstate)
}.

Record event := { ev_topics : list bytes; ev_data : bytes }.

Record ctx := { c_caller : bytes; c_owner : bytes; c_now : N }.

Definition zero_addr : bytes := zeros 32.

(* constants of constants.rs (pinned against the regenerated tables in Props) *)
Definition SIGNED_PREFIX : bytes := unhex "194d756c74697665727358205369676e6564204d6573736167653a0a".
Definition CMD_APPROVE : N := 0.
Definition CMD_ROTATE : N := 1.

(* ---------- codec of the gateway types ---------- *)

Definition enc_signer (s : signer) : bytes := s_key s ++ enc_big (s_weight s).
Definition enc_wsigners (w : wsigners) : bytes :=
  enc_u32 (Nlen (ws_signers w)) ++ concat (map enc_signer (ws_signers w))
  ++ enc_big (ws_threshold w) ++ ws_nonce w.

Definition dec_signer (b : bytes) : option (signer * bytes) :=
  match dec_fixed 32 b with
  | Some (k, r) => match dec_big r with
                   | Some (w, r') => Some ({| s_key := k; s_weight := w |}, r')
                   | None => None end
  | None => None
  end.

Definition dec_wsigners (b : bytes) : option (wsigners * bytes) :=
  match dec_vec dec_signer b with
  | Some (ss, r) =>
      match dec_big r with
      | Some (t, r') =>
          match dec_fixed 32 r' with
          | Some (n, r'') => Some ({| ws_signers := ss; ws_threshold := t; ws_nonce := n |}, r'')
          | None => None end
      | None => None end
  | None => None
  end.

(* top decode: the whole input must be consumed *)
Definition dec_wsigners_top (b : bytes) : option wsigners :=
  match dec_wsigners b with Some (w, []) => Some w | _ => None end.

Definition dec_opt_sig (b : bytes) : option (option bytes * bytes) :=
  match b with
  | x :: r =>
      if Byte.eqb x x00 then Some (None, r)
      else if Byte.eqb x x01 then
        match dec_fixed 64 r with Some (s, r') => Some (Some s, r') | None => None end
      else None
  | [] => None
  end.

Definition dec_proof_top (b : bytes) : option proof :=
  match dec_wsigners b with
  | Some (w, r) =>
      match dec_vec dec_opt_sig r with
      | Some (sigs, []) => Some {| pf_signers := w; pf_sigs := sigs |}
      | _ => None end
  | None => None
  end.

Definition dec_message (b : bytes) : option (message * bytes) :=
  match dec_buf b with
  | Some (c, r1) =>
    match dec_buf r1 with
    | Some (i, r2) =>
      match dec_buf r2 with
      | Some (s, r3) =>
        match dec_fixed 32 r3 with
        | Some (a, r4) =>
          match dec_fixed 32 r4 with
          | Some (p, r5) => Some ({| m_chain := c; m_id := i; m_src := s; m_contract := a; m_ph := p |}, r5)
          | None => None end
        | None => None end
      | None => None end
    | None => None end
  | None => None
  end.

Definition dec_messages_top (b : bytes) : option (list message) := dec_all dec_message (length b) b.

Definition enc_ccid (chain id : bytes) : bytes := enc_buf chain ++ enc_buf id.

Definition enc_msgkey (chain id src contract ph : bytes) : bytes :=
  enc_ccid chain id ++ enc_buf src ++ contract ++ ph.

Section WithCrypto.
  Variable H : bytes -> bytes.
  Variable verify : bytes -> bytes -> bytes -> bool.      (* key, message, signature *)

  Definition data_hash (cmd : N) (raw : bytes) : bytes := H (byte_of_N cmd :: raw).
  Definition signers_hash (w : wsigners) : bytes := H (enc_wsigners w).
  Definition digest (domain sh dh : bytes) : bytes := H (SIGNED_PREFIX ++ domain ++ sh ++ dh).
  Definition message_hash (chain id src contract ph : bytes) : bytes := H (enc_msgkey chain id src contract ph).

  Definition epoch_of (g : gw) (h : bytes) : N :=
    match alookup bytes_eqb h (g_epoch_by_hash g) with Some e => e | None => 0 end.

  (* validate_signatures: positional; None skipped; every visited Some must verify;
     stop as soon as the threshold is reached *)
  Fixpoint validate_sigs (d : bytes) (thr : N) (acc : N) (ss : list signer) (sigs : list (option bytes)) : bool :=
    match ss, sigs with
    | s :: ss', None :: sigs' => validate_sigs d thr acc ss' sigs'
    | s :: ss', Some sg :: sigs' =>
        if verify (s_key s) d sg then
          let acc' := acc + s_weight s in
          if thr <=? acc' then true else validate_sigs d thr acc' ss' sigs'
        else false
    | _, _ => false
    end.

  Definition validate_signatures (d : bytes) (w : wsigners) (sigs : list (option bytes)) : bool :=
    match sigs with
    | [] => false
    | _ => Nat.eqb (length (ws_signers w)) (length sigs)
           && validate_sigs d (ws_threshold w) 0 (ws_signers w) sigs
    end.

  (* validate_proof: Some is_latest, or None = transaction fails *)
  Definition validate_proof (g : gw) (dh : bytes) (p : proof) : option bool :=
    let w := pf_signers p in
    let sh := signers_hash w in
    let se := epoch_of g sh in
    let cur := g_epoch g in
    if (0 <? se) && (cur - se <=? g_retention g) then
      if validate_signatures (digest (g_domain g) sh dh) w (pf_sigs p) then Some (se =? cur) else None
    else None.

  (* validate_signers *)
  Fixpoint signers_ok (prev : N) (ss : list signer) : bool :=
    match ss with
    | [] => true
    | s :: r => let k := be_dec (s_key s) in (prev <? k) && (0 <? s_weight s) && signers_ok k r
    end.

  Definition total_weight (ss : list signer) : N := fold_right (fun s a => s_weight s + a) 0 ss.

  Definition validate_signers (w : wsigners) : bool :=
    match ws_signers w with
    | [] => false
    | ss => signers_ok 0 ss && (0 <? ws_threshold w) && (ws_threshold w <=? total_weight ss)
    end.

  (* topic encodings *)
  Definition top_big (n : N) : bytes := be_min n.

  Definition ev_signers_rotated (e : N) (h : bytes) (w : wsigners) : event :=
    {| ev_topics := [str "signers_rotated_event"; top_big e; h]; ev_data := enc_wsigners w |}.
  Definition ev_operatorship (a : bytes) : event :=
    {| ev_topics := [str "operatorship_transferred_event"]; ev_data := a |}.
  Definition ev_approved (m : message) : event :=
    {| ev_topics := [str "message_approved_event"; m_chain m; m_id m; m_src m; m_contract m; m_ph m]; ev_data := [] |}.
  Definition ev_executed (chain id : bytes) : event :=
    {| ev_topics := [str "message_executed_event"; chain; id]; ev_data := [] |}.
  Definition ev_contract_call (sender chain addr payload : bytes) : event :=
    {| ev_topics := [str "contract_call_event"; sender; chain; addr; H payload]; ev_data := payload |}.

  (* rotate_signers_raw *)
  Definition rotate_raw (g : gw) (now : N) (w : wsigners) (enforce : bool) : option (gw * list event) :=
    if validate_signers w then
      if negb enforce || (g_min_delay g <=? now - g_last_rot g) then
        let h := signers_hash w in
        let e := g_epoch g + 1 in
        match alookup bytes_eqb h (g_epoch_by_hash g) with
        | Some _ => None                                     (* "Duplicate signers" *)
        | None =>
            Some ({| g_epoch := e; g_last_rot := now;
                     g_hash_by_epoch := aset N.eqb e h (g_hash_by_epoch g);
                     g_epoch_by_hash := aset bytes_eqb h e (g_epoch_by_hash g);
                     g_retention := g_retention g; g_domain := g_domain g; g_min_delay := g_min_delay g;
                     g_operator := g_operator g; g_messages := g_messages g |},
                  [ev_signers_rotated e h w])
        end
      else None
    else None.

  Definition set_operator (g : gw) (a : bytes) : gw :=
    {| g_epoch := g_epoch g; g_last_rot := g_last_rot g; g_hash_by_epoch := g_hash_by_epoch g;
       g_epoch_by_hash := g_epoch_by_hash g; g_retention := g_retention g; g_domain := g_domain g;
       g_min_delay := g_min_delay g; g_operator := a; g_messages := g_messages g |}.

  Definition set_messages (g : gw) (ms : list ((bytes * bytes) * mstate)) : gw :=
    {| g_epoch := g_epoch g; g_last_rot := g_last_rot g; g_hash_by_epoch := g_hash_by_epoch g;
       g_epoch_by_hash := g_epoch_by_hash g; g_retention := g_retention g; g_domain := g_domain g;
       g_min_delay := g_min_delay g; g_operator := g_operator g; g_messages := ms |}.

  (* init + upgrade *)
  Fixpoint rotate_all (g : gw) (now : N) (ws : list wsigners) : option (gw * list event) :=
    match ws with
    | [] => Some (g, [])
    | w :: r =>
        match rotate_raw g now w false with
        | Some (g', ev) =>
            match rotate_all g' now r with
            | Some (g'', ev') => Some (g'', ev ++ ev')
            | None => None end
        | None => None
        end
    end.

  Definition gw_init (now retention : N) (domain : bytes) (min_delay : N) (operator : bytes)
             (signers_raw : list bytes) : option (gw * list event) :=
    let g0 := {| g_epoch := 0; g_last_rot := 0; g_hash_by_epoch := []; g_epoch_by_hash := [];
                 g_retention := retention; g_domain := domain; g_min_delay := min_delay;
                 g_operator := []; g_messages := [] |} in
    if negb (Nat.eqb (length domain) 32) || negb (Nat.eqb (length operator) 32) then None else
    let '(g1, ev1) := if bytes_eqb operator zero_addr then (g0, []) else (set_operator g0 operator, [ev_operatorship operator]) in
    let fix decode_all (l : list bytes) : option (list wsigners) :=
        match l with
        | [] => Some []
        | b :: r => match dec_wsigners_top b, decode_all r with
                    | Some w, Some ws => Some (w :: ws) | _, _ => None end
        end in
    match decode_all signers_raw with
    | Some ws => match rotate_all g1 now ws with
                 | Some (g2, ev2) => Some (g2, ev1 ++ ev2)
                 | None => None end
    | None => None
    end.

  Definition msg_state (g : gw) (chain id : bytes) : option mstate :=
    alookup pair_eqb (chain, id) (g_messages g).

  (* approve_message: untouched unless NonExistent *)
  Definition approve_message (g : gw) (m : message) : gw * list event :=
    match msg_state g (m_chain m) (m_id m) with
    | Some _ => (g, [])
    | None =>
        (set_messages g (aset pair_eqb (m_chain m, m_id m)
                           (MApproved (message_hash (m_chain m) (m_id m) (m_src m) (m_contract m) (m_ph m)))
                           (g_messages g)),
         [ev_approved m])
    end.

  Fixpoint approve_all (g : gw) (ms : list message) : gw * list event :=
    match ms with
    | [] => (g, [])
    | m :: r => let '(g', ev) := approve_message g m in
                let '(g'', ev') := approve_all g' r in (g'', ev ++ ev')
    end.

  Definition approve_messages (g : gw) (messages_raw proof_raw : bytes) : option (gw * list event) :=
    match dec_proof_top proof_raw with
    | None => None
    | Some p =>
        let dh := data_hash CMD_APPROVE messages_raw in
        match dec_messages_top messages_raw with
        | None | Some [] => None
        | Some ms =>
            match validate_proof g dh p with
            | Some _ => Some (approve_all g ms)
            | None => None
            end
        end
    end.

  Definition rotate_signers (g : gw) (c : ctx) (new_signers_raw proof_raw : bytes) : option (gw * list event) :=
    match dec_proof_top proof_raw with
    | None => None
    | Some p =>
        let dh := data_hash CMD_ROTATE new_signers_raw in
        match dec_wsigners_top new_signers_raw with
        | None => None
        | Some w =>
            if bytes_eqb (g_operator g) [] then None else
            let enforce := negb (bytes_eqb (c_caller c) (g_operator g)) in
            match validate_proof g dh p with
            | Some latest =>
                if negb enforce || latest then rotate_raw g (c_now c) w enforce else None
            | None => None
            end
        end
    end.

  Definition mstate_eqb (a b : mstate) : bool :=
    match a, b with
    | MApproved x, MApproved y => bytes_eqb x y
    | MExecuted, MExecuted => true
    | _, _ => false
    end.

  Definition is_approved_with (g : gw) (chain id src contract ph : bytes) : bool :=
    match msg_state g chain id with
    | Some (MApproved h) => bytes_eqb h (message_hash chain id src contract ph)
    | _ => false
    end.

  (* validate_message: destination = caller *)
  Definition validate_message (g : gw) (c : ctx) (chain id src ph : bytes) : option (gw * bool * list event) :=
    if negb (Nat.eqb (length ph) 32) then None else
    if is_approved_with g chain id src (c_caller c) ph
    then Some (set_messages g (aset pair_eqb (chain, id) MExecuted (g_messages g)), true, [ev_executed chain id])
    else Some (g, false, []).

  Definition is_message_approved (g : gw) (chain id src contract ph : bytes) : option bool :=
    if negb (Nat.eqb (length ph) 32) || negb (Nat.eqb (length contract) 32) then None
    else Some (is_approved_with g chain id src contract ph).

  Definition is_message_executed (g : gw) (chain id : bytes) : bool :=
    match msg_state g chain id with Some MExecuted => true | _ => false end.

  Definition transfer_operatorship (g : gw) (c : ctx) (new_op : bytes) : option (gw * list event) :=
    if negb (Nat.eqb (length new_op) 32) || bytes_eqb (g_operator g) [] then None else
    if bytes_eqb (c_caller c) (g_operator g) || bytes_eqb (c_caller c) (c_owner c) then
      if bytes_eqb new_op zero_addr then None
      else Some (set_operator g new_op, [ev_operatorship new_op])
    else None.

  Definition call_contract (c : ctx) (chain addr payload : bytes) : list event :=
    [ev_contract_call (c_caller c) chain addr payload].

  (* ---------- operations and traces ---------- *)
  Inductive gop :=
  | GApprove (c : ctx) (messages_raw proof_raw : bytes)
  | GRotate (c : ctx) (new_signers_raw proof_raw : bytes)
  | GValidate (c : ctx) (chain id src ph : bytes)
  | GTransferOp (c : ctx) (new_op : bytes)
  | GCallContract (c : ctx) (chain addr payload : bytes)
  | GIsApproved (c : ctx) (chain id src contract ph : bytes)
  | GIsExecuted (c : ctx) (chain id : bytes).

  Record gres := { r_ok : bool; r_rets : list bytes; r_events : list event }.

  Definition bool_ret (b : bool) : list bytes := [if b then [x01] else []].

  Definition fail : gres := {| r_ok := false; r_rets := []; r_events := [] |}.

  Definition gstep (g : gw) (o : gop) : gw * gres :=
    match o with
    | GApprove c m p =>
        match approve_messages g m p with
        | Some (g', ev) => (g', {| r_ok := true; r_rets := []; r_events := ev |})
        | None => (g, fail) end
    | GRotate c s p =>
        match rotate_signers g c s p with
        | Some (g', ev) => (g', {| r_ok := true; r_rets := []; r_events := ev |})
        | None => (g, fail) end
    | GValidate c chain id src ph =>
        match validate_message g c chain id src ph with
        | Some (g', b, ev) => (g', {| r_ok := true; r_rets := bool_ret b; r_events := ev |})
        | None => (g, fail) end
    | GTransferOp c a =>
        match transfer_operatorship g c a with
        | Some (g', ev) => (g', {| r_ok := true; r_rets := []; r_events := ev |})
        | None => (g, fail) end
    | GCallContract c chain addr payload =>
        (g, {| r_ok := true; r_rets := []; r_events := call_contract c chain addr payload |})
    | GIsApproved c chain id src contract ph =>
        match is_message_approved g chain id src contract ph with
        | Some b => (g, {| r_ok := true; r_rets := bool_ret b; r_events := [] |})
        | None => (g, fail) end
    | GIsExecuted c chain id =>
        (g, {| r_ok := true; r_rets := bool_ret (is_message_executed g chain id); r_events := [] |})
    end.

  Definition grun (g : gw) (ops : list gop) : gw := fold_left (fun s o => fst (gstep s o)) ops g.

  (* ---------- raw storage rendering (abstraction function of the correspondence) ---------- *)
  Definition nz (k v : bytes) : list (bytes * bytes) := match v with [] => [] | _ => [(k, v)] end.

  Definition render_mstate (s : mstate) : bytes :=
    match s with MApproved h => h | MExecuted => str "1" end.

  Definition render (g : gw) : list (bytes * bytes) :=
    nz (str "epoch") (be_min (g_epoch g))
    ++ nz (str "last_rotation_timestamp") (be_min (g_last_rot g))
    ++ nz (str "previous_signers_retention") (be_min (g_retention g))
    ++ nz (str "domain_separator") (g_domain g)
    ++ nz (str "minimum_rotation_delay") (be_min (g_min_delay g))
    ++ nz (str "operator") (g_operator g)
    ++ map (fun '(e, h) => (str "signer_hash_by_epoch" ++ enc_big e, h)) (g_hash_by_epoch g)
    ++ map (fun '(h, e) => (str "epoch_by_signer_hash" ++ h, be_min e)) (g_epoch_by_hash g)
    ++ map (fun '((c, i), s) => (str "messages" ++ enc_ccid c i, render_mstate s)) (g_messages g).
End WithCrypto.
