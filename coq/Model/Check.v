(* Generic comparison helpers for the correspondence: observations of the
   implementation (status, return data, events, storage diff) against the model. *)
From Coq Require Import String Ascii.
From Coq Require Import List Arith NArith Lia Bool.
From Coq Require Import Init.Byte Strings.Byte.
From Ax Require Import Lib.Bytes Lib.Mvx.
Import ListNotations.
Open Scope N_scope.

Fixpoint list_eqb {A} (eqb : A -> A -> bool) (a b : list A) : bool :=
  match a, b with
  | [], [] => true
  | x :: a', y :: b' => eqb x y && list_eqb eqb a' b'
  | _, _ => false
  end.

Definition kv := (bytes * bytes)%type.

Definition kv_lookup (k : bytes) (l : list kv) : bytes :=
  match alookup bytes_eqb k l with Some v => v | None => [] end.

(* d is exactly the set of keys whose value differs between pre and post, with the post value *)
Definition sdiff_ok (pre post d : list kv) : bool :=
  forallb (fun '(k, v) => bytes_eqb (kv_lookup k post) v && negb (bytes_eqb (kv_lookup k pre) v)) d
  && forallb (fun '(k, _) => bytes_eqb (kv_lookup k pre) (kv_lookup k post) || existsb (fun '(k', _) => bytes_eqb k k') d) (pre ++ post).

Definition verify_tab (tab : list (bytes * bytes * bytes)) (key msg sig : bytes) : bool :=
  existsb (fun '(k, m, s) => bytes_eqb k key && bytes_eqb m msg && bytes_eqb s sig) tab.

Definition bool_eqb (a b : bool) : bool := if a then b else negb b.
