(* Correspondence checker for stand-alone token-manager traces. *)
From Coq Require Import String Ascii.
From Coq Require Import List Arith NArith Lia Bool.
From Coq Require Import Init.Byte Strings.Byte.
From Ax Require Import Lib.Bytes Lib.Mvx Model.Check Model.Env Model.TokenManager Model.TMUpgrade.
Import ListNotations.
Open Scope N_scope.

Record texpect := { tx_ok : bool; tx_rets : list bytes; tx_logs : list log; tx_sd : list kv; tx_bd : list (bytes * bytes * N) }.

(* code: +1 status, +2 return data, +4 events, +8 storage, +16 balances *)
Definition tcompare (tracked : list bytes) (pre post : tm) (lpre lpost : ledger) (o : tout) (x : texpect) : N :=
  (if bool_eqb (to_ok o) (tx_ok x) then 0 else 1)
  + (if list_eqb bytes_eqb (to_rets o) (tx_rets x) then 0 else 2)
  + (if list_eqb log_eqb (to_logs o) (tx_logs x) then 0 else 4)
  + (if sdiff_ok (tm_render pre) (tm_render post) (tx_sd x) then 0 else 8)
  + (if bdiff_ok tracked lpre lpost (tx_bd x) then 0 else 16).

(* steps are endpoint operations (inl) or upgrades by the owner (inr, Model/TMUpgrade.v) *)
Fixpoint tcheck_steps (tracked : list bytes) (t : tm) (l : ledger) (steps : list ((top + tupg) * texpect)) : list N :=
  match steps with
  | [] => []
  | (o, x) :: r =>
      let '(t', l', out) := ustep t l o in
      tcompare tracked t t' l l' out x :: tcheck_steps tracked t' l' r
  end.

Definition empty_tm : tm :=
  {| tm_service := []; tm_type := 0; tm_tid := []; tm_token := []; tm_roles := []; tm_proposed := [];
     tm_limit := 0; tm_in := []; tm_out := []; tm_pending := 0 |}.

Definition tcheck_trace (tracked : list bytes) (l0 : ledger) (self service : bytes) (ty : N) (tid : bytes)
           (operator token : option bytes) (xinit : texpect) (steps : list ((top + tupg) * texpect)) : list N :=
  match tm_init self service ty tid operator token with
  | Some (t, e) =>
      tcompare tracked empty_tm t l0 l0 {| to_ok := true; to_rets := []; to_logs := e |} xinit :: tcheck_steps tracked t l0 steps
  | None => [if tx_ok xinit then 1 else 0]
  end.
