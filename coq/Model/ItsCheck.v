(* Correspondence checker for ITS-world traces. *)
From Coq Require Import String Ascii.
From Coq Require Import List Arith NArith Lia Bool.
From Coq Require Import Init.Byte Strings.Byte.
From Ax Require Import Lib.Bytes Lib.Mvx Lib.Keccak Model.Check Model.Env Model.Gateway Model.GatewayCheck Model.TokenManager Model.Its.
Import ListNotations.
Open Scope N_scope.

Record iexpect := {
  ix_ok : bool; ix_rets : list bytes; ix_logs : list log;
  ix_sd : list (bytes * bytes * bytes);           (* (contract, key, value) for the service, the gateway and every token manager *)
  ix_bd : list (bytes * bytes * N)
}.

Fixpoint is_suffix (a b : list bytes) : bool :=      (* a is a suffix of b *)
  list_eqb bytes_eqb a b || match b with [] => false | _ :: r => is_suffix a r end.

Definition sd_of (a : bytes) (d : list (bytes * bytes * bytes)) : list kv :=
  flat_map (fun '(c, k, v) => if bytes_eqb c a then [(k, v)] else []) d.

(* all managers known before or after the step *)
Definition tm_addrs (pre post : iworld) : list bytes := map fst (iw_tms pre) ++ map fst (iw_tms post).
Definition tm_render_of (w : iworld) (a : bytes) : list kv := match get_tm w a with Some t => tm_render t | None => [] end.

Definition icompare (tracked : list bytes) (self gwa : bytes) (pre post : iworld) (o : iout) (x : iexpect) : N :=
  (if bool_eqb (io_ok o) (ix_ok x) then 0 else 1)
  + (if is_suffix (io_rets o) (ix_rets x) then 0 else 2)
  + (if list_eqb log_eqb (io_logs o) (ix_logs x) then 0 else 4)
  + (if sdiff_ok (its_render (iw_its pre)) (its_render (iw_its post)) (sd_of self (ix_sd x))
        && sdiff_ok (render (iw_gw pre)) (render (iw_gw post)) (sd_of gwa (ix_sd x))
        && forallb (fun a => sdiff_ok (tm_render_of pre a) (tm_render_of post a) (sd_of a (ix_sd x))) (tm_addrs pre post)
        && forallb (fun '(c, _, _) => bytes_eqb c self || bytes_eqb c gwa || existsb (bytes_eqb c) (tm_addrs pre post)) (ix_sd x)
     then 0 else 8)
  + (if bdiff_ok tracked (iw_led pre) (iw_led post) (ix_bd x) then 0 else 16).

(* read-only queries of the service (views): they change nothing and return a function of the current state *)
Inductive iview :=
| VInterchainId (deployer salt : bytes)
| VCanonicalId (token : bytes)
| VLinkedId (deployer salt : bytes)
| VChainNameHash
| VDeployedTm (token_id : bytes).

Definition iview_eval (w : iworld) (v : iview) : iout :=
  let s := iw_its w in
  match v with
  | VInterchainId d sa => {| io_ok := true; io_rets := [interchain_token_id keccak256 s d sa]; io_logs := [] |}
  | VCanonicalId t => {| io_ok := true; io_rets := [canonical_token_id keccak256 s t]; io_logs := [] |}
  | VLinkedId d sa => {| io_ok := true; io_rets := [linked_token_id keccak256 s d sa]; io_logs := [] |}
  | VChainNameHash => {| io_ok := true; io_rets := [i_chain_hash s]; io_logs := [] |}
  | VDeployedTm tid => if bytes_eqb (tm_addr s tid) [] then ifail else {| io_ok := true; io_rets := [tm_addr s tid]; io_logs := [] |}
  end.

Section Run.
  Variable tab : list (bytes * bytes * bytes).

  Fixpoint icheck_steps (tracked : list bytes) (self gwa : bytes) (w : iworld) (steps : list ((iop + iview) * iexpect)) : list N :=
    match steps with
    | [] => []
    | (inl o, x) :: r =>
        let '(w', out) := istep keccak256 (verify_tab tab) w o in
        icompare tracked self gwa w w' out x :: icheck_steps tracked self gwa w' r
    | (inr v, x) :: r =>
        icompare tracked self gwa w w (iview_eval w v) x :: icheck_steps tracked self gwa w r
    end.

  Definition icheck_trace (tracked : list bytes) (l0 : ledger)
             (gwnow retention : N) (domain : bytes) (gwdelay : N) (gwop : bytes) (signers_raw : list bytes)
             (self gwa gasa tmimpl operator chain : bytes) (trusted_ : list (bytes * bytes))
             (steps : list ((iop + iview) * iexpect)) : list N :=
    match gw_init keccak256 gwnow retention domain gwdelay gwop signers_raw with
    | Some (g, _) =>
        let s := {| i_gateway := gwa; i_gas := gasa; i_tm_impl := tmimpl; i_chain := chain; i_chain_hash := keccak256 chain;
                    i_paused := false; i_trusted := trusted_; i_tms := []; i_locks := []; i_approvals := [];
                    i_roles := [(operator, OPERATOR)]; i_proposed := [] |} in
        0 :: icheck_steps tracked self gwa {| iw_gw := g; iw_its := s; iw_tms := []; iw_led := l0; iw_pend := []; iw_next := 0 |} steps
    | None => [1]
    end.
End Run.
