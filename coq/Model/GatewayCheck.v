(* Correspondence checker for gateway traces. *)
From Coq Require Import String Ascii.
From Coq Require Import List Arith NArith Lia Bool.
From Coq Require Import Init.Byte Strings.Byte.
From Ax Require Import Lib.Bytes Lib.Mvx Lib.Keccak Model.Check Model.Gateway.
Import ListNotations.
Open Scope N_scope.

Record expect := { x_ok : bool; x_rets : list bytes; x_logs : list event; x_sd : list kv }.

Definition event_eqb (a b : event) : bool :=
  list_eqb bytes_eqb (ev_topics a) (ev_topics b) && bytes_eqb (ev_data a) (ev_data b).

(* code: 0 agree; +1 status; +2 return data; +4 events; +8 storage *)
Definition compare (pre post : gw) (r : gres) (x : expect) : N :=
  (if bool_eqb (r_ok r) (x_ok x) then 0 else 1)
  + (if list_eqb bytes_eqb (r_rets r) (x_rets x) then 0 else 2)
  + (if list_eqb event_eqb (r_events r) (x_logs x) then 0 else 4)
  + (if sdiff_ok (render pre) (render post) (x_sd x) then 0 else 8).

Section Run.
  Variable tab : list (bytes * bytes * bytes).
  Definition Hk := keccak256.
  Definition vf := verify_tab tab.

  Fixpoint check_steps (g : gw) (steps : list (gop * expect)) : list N :=
    match steps with
    | [] => []
    | (o, x) :: r =>
        let '(g', res) := gstep Hk vf g o in
        compare g g' res x :: check_steps g' r
    end.

  Definition empty_gw : gw :=
    {| g_epoch := 0; g_last_rot := 0; g_hash_by_epoch := []; g_epoch_by_hash := []; g_retention := 0;
       g_domain := []; g_min_delay := 0; g_operator := []; g_messages := [] |}.

  Definition check_trace (now retention : N) (domain : bytes) (min_delay : N) (operator : bytes)
             (signers_raw : list bytes) (xinit : expect) (steps : list (gop * expect)) : list N :=
    match gw_init Hk now retention domain min_delay operator signers_raw with
    | Some (g, ev) =>
        compare empty_gw g {| r_ok := true; r_rets := []; r_events := ev |} xinit :: check_steps g steps
    | None =>
        [if x_ok xinit then 1 else 0]
    end.
End Run.
