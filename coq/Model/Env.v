(* Execution environment shared by the contract models: ledger (EGLD/ESDT balances),
   call value, events, results. *)
From Coq Require Import String Ascii.
From Coq Require Import List Arith NArith Lia Bool.
From Coq Require Import Init.Byte Strings.Byte.
From Ax Require Import Lib.Bytes Lib.Mvx Model.Check.
Import ListNotations.
Open Scope N_scope.

Definition addr := bytes.
Definition zero32 : bytes := zeros 32.
Definition EGLD : bytes := str "EGLD".

(* ---------- ledger: (account, token) -> balance; EGLD is the token "EGLD" ---------- *)
Definition ledger := list ((bytes * bytes) * N).

Definition bal (l : ledger) (a t : bytes) : N :=
  match alookup pair_eqb (a, t) l with Some v => v | None => 0 end.

Definition set_bal (l : ledger) (a t : bytes) (v : N) : ledger := aset pair_eqb (a, t) v l.

Definition credit (l : ledger) (a t : bytes) (v : N) : ledger := set_bal l a t (bal l a t + v).

Definition debit (l : ledger) (a t : bytes) (v : N) : option ledger :=
  if v <=? bal l a t then Some (set_bal l a t (bal l a t - v)) else None.

Definition transfer (l : ledger) (from to t : bytes) (v : N) : option ledger :=
  match debit l from t v with
  | Some l' => Some (credit l' to t v)
  | None => None
  end.

(* ---------- call value ---------- *)
Record esdt_pay := { ep_token : bytes; ep_nonce : N; ep_amount : N }.
Record callvalue := { cv_egld : N; cv_esdt : list esdt_pay }.
Definition no_value : callvalue := {| cv_egld := 0; cv_esdt := [] |}.

(* ledger key of an ESDT instance: fungible tokens (nonce 0) under their identifier, an NFT / SFT / meta-ESDT
   instance under identifier # nonce (8 bytes big endian) *)
Definition ltok (t : bytes) (nonce : N) : bytes := if nonce =? 0 then t else t ++ str "#" ++ be_enc 8 nonce.

Lemma ltok_0 t : ltok t 0 = t.
Proof. reflexivity. Qed.

(* funds move from the caller to the callee before the endpoint body runs *)
Fixpoint pay_esdts (l : ledger) (from to : bytes) (ps : list esdt_pay) : option ledger :=
  match ps with
  | [] => Some l
  | p :: r => match transfer l from to (ltok (ep_token p) (ep_nonce p)) (ep_amount p) with
              | Some l' => pay_esdts l' from to r
              | None => None end
  end.

Definition pay_in (l : ledger) (from to : bytes) (v : callvalue) : option ledger :=
  match cv_esdt v with
  | [] => transfer l from to EGLD (cv_egld v)
  | ps => if cv_egld v =? 0 then pay_esdts l from to ps else None
  end.

(* call_value().egld_or_single_esdt() then nonce check: (token, amount) *)
Definition egld_or_single_fungible (v : callvalue) : option (bytes * N) :=
  match cv_esdt v with
  | [] => Some (EGLD, cv_egld v)
  | [p] => if ep_nonce p =? 0 then Some (ep_token p, ep_amount p) else None
  | _ => None
  end.

(* call_value().single_fungible_esdt() *)
Definition single_fungible_esdt (v : callvalue) : option (bytes * N) :=
  match cv_esdt v with
  | [p] => if ep_nonce p =? 0 then Some (ep_token p, ep_amount p) else None
  | _ => None
  end.

Definition has_no_esdt (v : callvalue) : bool := match cv_esdt v with [] => true | _ => false end.
Definition has_no_value (v : callvalue) : bool := (cv_egld v =? 0) && has_no_esdt v.

(* ---------- events ---------- *)
Record log := { lg_addr : bytes; lg_topics : list bytes; lg_data : bytes }.
Definition log_eqb (a b : log) : bool :=
  bytes_eqb (lg_addr a) (lg_addr b) && list_eqb bytes_eqb (lg_topics a) (lg_topics b) && bytes_eqb (lg_data a) (lg_data b).

(* ---------- balance diffs for the correspondence: (account, token, new balance) ---------- *)
Definition bdiff_ok (tracked : list bytes) (pre post : ledger) (d : list (bytes * bytes * N)) : bool :=
  forallb (fun '(a, t, v) => (bal post a t =? v) && negb (bal pre a t =? v)) d
  && forallb (fun '((a, t), _) => negb (existsb (bytes_eqb a) tracked) || (bal pre a t =? bal post a t)
                                   || existsb (fun '(a', t', _) => bytes_eqb a a' && bytes_eqb t t') d) (pre ++ post).

Definition nzk (k v : bytes) : list (bytes * bytes) := match v with [] => [] | _ => [(k, v)] end.
