(* Model of interchain-token-service (lib, executable, remote, proxy_gmp, proxy_its, user_functions,
   factory, address_tracker) together with the gateway, the gas service, the token managers it
   deploys, the ledger, and the pending asynchronous work (transfer-with-data promises, ESDT
   system-contract lookups and issuances), each step of which is scheduled by the environment. *)
From Coq Require Import String Ascii.
From Coq Require Import List Arith NArith Lia Bool.
From Coq Require Import Init.Byte Strings.Byte.
From Ax Require Import Lib.Bytes Lib.Mvx Lib.SolAbi Model.Check Model.Env Model.Gateway Model.TokenManager.
Import ListNotations.
Open Scope N_scope.

(* constants.rs *)
Definition MT_TRANSFER : N := 0.
Definition MT_DEPLOY : N := 1.
Definition MT_SEND_TO_HUB : N := 3.
Definition MT_RECEIVE_FROM_HUB : N := 4.
Definition MT_LINK : N := 5.
Definition MT_REGISTER_METADATA : N := 6.
Definition HUB_CHAIN : bytes := str "axelar".
Definition HUB_ID : bytes := str "hub".
Definition PREFIX_TOKEN_ID : bytes := str "its-interchain-token-id".
Definition PREFIX_CANONICAL : bytes := str "canonical-token-salt".
Definition PREFIX_INTERCHAIN : bytes := str "interchain-token-salt".
Definition PREFIX_APPROVAL : bytes := str "deploy-approval".
Definition PREFIX_CUSTOM : bytes := str "custom-token-salt".
Definition EGLD_ESDT : bytes := str "EGLD-000000".
Definition FUNGIBLE : bytes := str "FungibleESDT".

Record its := {
  i_gateway : bytes; i_gas : bytes; i_tm_impl : bytes; i_chain : bytes; i_chain_hash : bytes;
  i_paused : bool;
  i_trusted : list (bytes * bytes);                 (* chain -> trusted address ([] = none) *)
  i_tms : list (bytes * bytes);                     (* token id -> token manager address *)
  i_locks : list ((bytes * bytes) * N);             (* transfer_with_data_lock(source chain, message id) *)
  i_approvals : list (bytes * bytes);               (* approved_destination_minters(key) *)
  i_roles : list (bytes * N);
  i_proposed : list ((bytes * bytes) * N)           (* proposed_roles(from, to) *)
}.

Inductive ipkind :=
| PTransfer (chain id src ph token_id tok : bytes) (amount : N) (dest : bytes) (orig_chain orig_src data : bytes)
| PMetadata (tok : bytes) (gas : N) (caller : bytes)
| PRemote (deploy_salt dest_chain symbol minter : bytes) (gas : N) (caller : bytes) (tok : bytes)
| PIssue (tm : bytes).
Inductive istage := IAwaitCall | IAwaitCallback (ok : bool).
Record ipend := { ip_id : N; ip_kind : ipkind; ip_stage : istage }.

Record iworld := {
  iw_gw : gw; iw_its : its; iw_tms : list (bytes * tm); iw_led : ledger; iw_pend : list ipend; iw_next : N
}.

Record ictx := { ic_self : bytes; ic_caller : bytes; ic_owner : bytes; ic_now : N; ic_value : callvalue; ic_newtm : bytes }.

Definition bget (m : list (bytes * bytes)) (k : bytes) : bytes := match alookup bytes_eqb k m with Some v => v | None => [] end.
Definition trusted (s : its) (chain : bytes) : bytes := bget (i_trusted s) chain.
Definition is_trusted (s : its) (chain a : bytes) : bool := negb (bytes_eqb (trusted s chain) []) && bytes_eqb a (trusted s chain).
Definition tm_addr (s : its) (token_id : bytes) : bytes := bget (i_tms s) token_id.
Definition lock_of (s : its) (chain id : bytes) : N := match alookup pair_eqb (chain, id) (i_locks s) with Some v => v | None => 0 end.
Definition iroles (s : its) (a : bytes) : N := match alookup bytes_eqb a (i_roles s) with Some r => r | None => 0 end.

Definition iupd (s : its) paused trusted_ tms locks approvals roles : its :=
  {| i_gateway := i_gateway s; i_gas := i_gas s; i_tm_impl := i_tm_impl s; i_chain := i_chain s; i_chain_hash := i_chain_hash s;
     i_paused := paused; i_trusted := trusted_; i_tms := tms; i_locks := locks; i_approvals := approvals; i_roles := roles; i_proposed := i_proposed s |}.
Definition set_paused s b := iupd s b (i_trusted s) (i_tms s) (i_locks s) (i_approvals s) (i_roles s).
Definition set_trusted s c a := iupd s (i_paused s) (aset bytes_eqb c a (i_trusted s)) (i_tms s) (i_locks s) (i_approvals s) (i_roles s).
Definition set_tm s id a := iupd s (i_paused s) (i_trusted s) (aset bytes_eqb id a (i_tms s)) (i_locks s) (i_approvals s) (i_roles s).
Definition set_lock s c i v := iupd s (i_paused s) (i_trusted s) (i_tms s) (aset pair_eqb (c, i) v (i_locks s)) (i_approvals s) (i_roles s).
Definition set_approval s k v := iupd s (i_paused s) (i_trusted s) (i_tms s) (i_locks s) (aset bytes_eqb k v (i_approvals s)) (i_roles s).
Definition set_iroles s a r := iupd s (i_paused s) (i_trusted s) (i_tms s) (i_locks s) (i_approvals s) (aset bytes_eqb a r (i_roles s)).

Definition set_iproposed (s : its) (f t : bytes) (r : N) : its :=
  {| i_gateway := i_gateway s; i_gas := i_gas s; i_tm_impl := i_tm_impl s; i_chain := i_chain s; i_chain_hash := i_chain_hash s;
     i_paused := i_paused s; i_trusted := i_trusted s; i_tms := i_tms s; i_locks := i_locks s; i_approvals := i_approvals s; i_roles := i_roles s;
     i_proposed := aset pair_eqb (f, t) r (i_proposed s) |}.
Definition iproposed (s : its) (f t : bytes) : N := match alookup pair_eqb (f, t) (i_proposed s) with Some r => r | None => 0 end.

Definition wset (w : iworld) gw_ its_ tms led pend nxt : iworld :=
  {| iw_gw := gw_; iw_its := its_; iw_tms := tms; iw_led := led; iw_pend := pend; iw_next := nxt |}.
Definition w_its (w : iworld) (s : its) := wset w (iw_gw w) s (iw_tms w) (iw_led w) (iw_pend w) (iw_next w).
Definition w_led_ (w : iworld) (l : ledger) := wset w (iw_gw w) (iw_its w) (iw_tms w) l (iw_pend w) (iw_next w).
Definition w_gw_ (w : iworld) (g : gw) := wset w g (iw_its w) (iw_tms w) (iw_led w) (iw_pend w) (iw_next w).
Definition w_tm (w : iworld) (a : bytes) (t : tm) := wset w (iw_gw w) (iw_its w) (aset bytes_eqb a t (iw_tms w)) (iw_led w) (iw_pend w) (iw_next w).
Definition w_push (w : iworld) (k : ipkind) :=
  wset w (iw_gw w) (iw_its w) (iw_tms w) (iw_led w) (iw_pend w ++ [{| ip_id := iw_next w; ip_kind := k; ip_stage := IAwaitCall |}]) (iw_next w + 1).
Definition get_tm (w : iworld) (a : bytes) : option tm := alookup bytes_eqb a (iw_tms w).

(* ESDT identifier validity (TICKER-xxxxxx) *)
Definition is_upper_num (b : byte) : bool := let n := Byte.to_N b in ((65 <=? n) && (n <=? 90)) || ((48 <=? n) && (n <=? 57)).
Definition is_lower_num (b : byte) : bool := let n := Byte.to_N b in ((97 <=? n) && (n <=? 122)) || ((48 <=? n) && (n <=? 57)).
Definition valid_esdt_id (t : bytes) : bool :=
  let len := length t in
  if Nat.ltb len 10 || Nat.ltb 17 len then false else
  let ticker := firstn (len - 7) t in
  forallb is_upper_num ticker
  && (match nth_error t (len - 7) with Some b => Byte.eqb b "-"%byte | None => false end)
  && forallb is_lower_num (skipn (len - 6) t).
Definition valid_token (t : bytes) : bool := bytes_eqb t EGLD || valid_esdt_id t.

(* ascii_to_u8 of the decimals buffer "NumDecimals-DD" (u8 arithmetic, hex digit values) *)
Definition digit_val (b : byte) : option N :=
  let n := Byte.to_N b in
  if (48 <=? n) && (n <=? 57) then Some (n - 48)
  else if (97 <=? n) && (n <=? 102) then Some (n - 87)
  else if (65 <=? n) && (n <=? 70) then Some (n - 55) else None.
Fixpoint ascii_to_u8 (acc : N) (l : bytes) : option N :=
  match l with
  | [] => Some acc
  | b :: r => if Byte.eqb b x00 then Some acc else
              match digit_val b with
              | Some d => if 256 <=? acc * 10 + d then None else ascii_to_u8 (acc * 10 + d) r
              | None => None end
  end.

Section WithHash.
  Variable H : bytes -> bytes.

  (* ---------- token ids (factory.rs / user_functions.rs) ---------- *)
  Definition token_id_raw (salt : bytes) : bytes := H (H PREFIX_TOKEN_ID ++ zero32 ++ salt).
  Definition interchain_salt (s : its) (deployer salt : bytes) : bytes := H (H PREFIX_INTERCHAIN ++ i_chain_hash s ++ deployer ++ salt).
  Definition canonical_salt (s : its) (token : bytes) : bytes := H (H PREFIX_CANONICAL ++ i_chain_hash s ++ token).
  Definition linked_salt (s : its) (deployer salt : bytes) : bytes := H (H PREFIX_CUSTOM ++ i_chain_hash s ++ deployer ++ salt).
  Definition interchain_token_id (s : its) (deployer salt : bytes) : bytes := token_id_raw (interchain_salt s deployer salt).
  Definition canonical_token_id (s : its) (token : bytes) : bytes := token_id_raw (canonical_salt s token).
  Definition linked_token_id (s : its) (deployer salt : bytes) : bytes := token_id_raw (linked_salt s deployer salt).
  Definition approval_key (minter token_id dest_chain : bytes) : bytes := H (H PREFIX_APPROVAL ++ minter ++ token_id ++ enc_buf dest_chain).

  (* ---------- logs of the gateway and the gas service (the only events compared) ---------- *)
  Definition lg (a : bytes) (topics : list bytes) (data : bytes) : log := {| lg_addr := a; lg_topics := topics; lg_data := data |}.
  Definition gw_logs (s : its) (evs : list event) : list log := map (fun e => lg (i_gateway s) (ev_topics e) (ev_data e)) evs.

  (* result of an internal computation: new world and emitted (compared) logs *)
  Definition ires := option (iworld * list log).

  (* ---------- routing (proxy_gmp.rs) ---------- *)
  Definition route_out (s : its) (dest payload : bytes) : option (bytes * bytes * bytes) :=
    if bytes_eqb dest HUB_CHAIN then None else
    let a := trusted s dest in
    if bytes_eqb a [] then None else
    if bytes_eqb a HUB_ID then
      let h := trusted s HUB_CHAIN in
      if bytes_eqb h [] then None else
      match enc_impl [TUint MT_SEND_TO_HUB; TString dest; TBytes payload] with
      | Some p => Some (HUB_CHAIN, h, p)
      | None => None
      end
    else Some (dest, a, payload).

  (* call_contract: pay gas (if any) to the gas service, then gateway.callContract *)
  Definition call_contract (w : iworld) (c : ictx) (dchain daddr payload gas_token : bytes) (gas : N) : ires :=
    let s := iw_its w in
    if bytes_eqb daddr [] then None else
    match (if gas =? 0 then Some (iw_led w, [])
           else match transfer (iw_led w) (ic_self c) (i_gas s) gas_token gas with
                | Some l' =>
                    Some (l', [if bytes_eqb gas_token EGLD
                               then lg (i_gas s) [str "native_gas_paid_for_contract_call_event"; ic_self c; dchain; daddr] (H payload ++ enc_big gas ++ ic_caller c)
                               else lg (i_gas s) [str "gas_paid_for_contract_call_event"; ic_self c; dchain; daddr] (H payload ++ enc_buf gas_token ++ enc_big gas ++ ic_caller c)])
                | None => None end) with
    | Some (l', ev) =>
        Some (w_led_ w l', ev ++ [lg (i_gateway s) [str "contract_call_event"; ic_self c; dchain; daddr; H payload] payload])
    | None => None
    end.

  Definition route_message (w : iworld) (c : ictx) (dest payload gas_token : bytes) (gas : N) : ires :=
    match route_out (iw_its w) dest payload with
    | Some (dc, da, p) => call_contract w c dc da p gas_token gas
    | None => None
    end.

  (* inbound: only_remote_service + get_execute_params *)
  Definition msg_type (payload : bytes) : option N :=
    match peek32 payload 0 with
    | Some wd => let v := be_dec wd in if v <? 2 ^ 64 then Some v else None
    | None => None
    end.

  (* (message type, original source chain, payload) *)
  Definition route_in (s : its) (chain payload : bytes) : option (N * bytes * bytes) :=
    match msg_type payload with
    | None => None
    | Some mt =>
        if mt =? MT_RECEIVE_FROM_HUB then
          if negb (bytes_eqb chain HUB_CHAIN) then None else
          match dec_impl [PUint; PString; PBytes] payload with
          | Some [TUint _; TString orig; TBytes inner] =>
              if is_trusted s orig HUB_ID then
                match msg_type inner with Some mt' => Some (mt', orig, inner) | None => None end
              else None
          | _ => None
          end
        else if bytes_eqb chain HUB_CHAIN then None
        else Some (mt, chain, payload)
    end.

  (* ---------- synchronous calls into token managers ---------- *)
  Definition tm_ctx (c : ictx) (tma : bytes) (v : callvalue) : tctx := {| t_self := tma; t_caller := ic_self c; t_now := ic_now c; t_value := v |}.

  Definition call_tm_give (w : iworld) (c : ictx) (token_id dest : bytes) (amount : N) : option (iworld * bytes) :=
    let tma := tm_addr (iw_its w) token_id in
    if bytes_eqb tma [] then None else
    match get_tm w tma with
    | None => None
    | Some t =>
        match give_token t (iw_led w) (tm_ctx c tma no_value) dest amount with
        | Some (t', l', _, _) => Some (w_led_ (w_tm w tma t') l', tm_token t)
        | None => None
        end
    end.

  (* takeToken with a payment sent from the service *)
  Definition call_tm_take (w : iworld) (c : ictx) (token_id tok : bytes) (amount : N) : option iworld :=
    let tma := tm_addr (iw_its w) token_id in
    if bytes_eqb tma [] then None else
    match get_tm w tma with
    | None => None
    | Some t =>
        let v := if bytes_eqb tok EGLD then {| cv_egld := amount; cv_esdt := [] |}
                 else {| cv_egld := 0; cv_esdt := [{| ep_token := tok; ep_nonce := 0; ep_amount := amount |}] |} in
        match pay_in (iw_led w) (ic_self c) tma v with
        | None => None
        | Some l1 =>
            match take_token t l1 (tm_ctx c tma v) with
            | Some (t', l', _, _) => Some (w_led_ (w_tm w tma t') l')
            | None => None
            end
        end
    end.

  (* deploy_token_manager_raw: new manager from source at the address the environment provides *)
  Definition deploy_tm (w : iworld) (c : ictx) (token_id : bytes) (ty : N) (token : option bytes) (operator : bytes) : option iworld :=
    if negb (bytes_eqb (tm_addr (iw_its w) token_id) []) then None else
    if negb (bytes_eqb operator []) && negb (Nat.eqb (length operator) 32) then None else
    let op := if bytes_eqb operator [] then None else Some operator in
    match tm_init (ic_newtm c) (ic_self c) ty token_id op token with
    | Some (t, _) =>
        if bytes_eqb (ic_newtm c) [] then None else
        Some (w_its (w_tm w (ic_newtm c) t) (set_tm (iw_its w) token_id (ic_newtm c)))
    | None => None
    end.

  (* token_manager_deploy_interchain_token: forwards the transaction's EGLD; registers the issuance *)
  Definition call_tm_deploy_token (w : iworld) (c : ictx) (token_id : bytes) (minter : option bytes) (name symbol : bytes) : option iworld :=
    let tma := tm_addr (iw_its w) token_id in
    if bytes_eqb tma [] then None else
    match get_tm w tma with
    | None => None
    | Some t =>
        let v := {| cv_egld := cv_egld (ic_value c); cv_esdt := [] |} in
        match pay_in (iw_led w) (ic_self c) tma v with
        | None => None
        | Some l1 =>
            match deploy_interchain_token t l1 (tm_ctx c tma v) minter name symbol with
            | Some (t', l', _, _) => Some (w_push (w_led_ (w_tm w tma t') l') (PIssue tma))
            | None => None
            end
        end
    end.

  Definition opt_addr (b : bytes) : option (option bytes) :=
    if bytes_eqb b [] then Some None else if Nat.eqb (length b) 32 then Some (Some b) else None.

  (* ---------- inbound execute ---------- *)
  Definition gw_validate (w : iworld) (c : ictx) (chain id src ph : bytes) : option (iworld * bool * list log) :=
    match validate_message H (iw_gw w) {| c_caller := ic_self c; c_owner := []; c_now := ic_now c |} chain id src ph with
    | Some (g', b, ev) => Some (w_gw_ w g', b, gw_logs (iw_its w) ev)
    | None => None
    end.
  Definition gw_is_approved (w : iworld) (c : ictx) (chain id src ph : bytes) : bool :=
    is_approved_with H (iw_gw w) chain id src (ic_self c) ph.

  Definition process_transfer (w : iworld) (c : ictx) (orig_chain chain id src ph payload : bytes) : ires :=
    match dec_impl [PUint; PBytes32; PBytes; PBytes; PUint; PBytes] payload with
    | Some [TUint _; TBytes32 token_id; TBytes osrc; TBytes dest; TUint amount; TBytes data] =>
        if negb (Nat.eqb (length dest) 32) then None else
        if bytes_eqb data [] then
          match gw_validate w c chain id src ph with
          | Some (w1, true, ev) =>
              match call_tm_give w1 c token_id dest amount with
              | Some (w2, _) => Some (w2, ev)
              | None => None end
          | _ => None
          end
        else
          if negb (gw_is_approved w c chain id src ph) then None else
          match call_tm_give w c token_id (ic_self c) amount with
          | Some (w1, tok) =>
              if negb (lock_of (iw_its w1) chain id =? 0) then None else
              Some (w_push (w_its w1 (set_lock (iw_its w1) chain id 1))
                           (PTransfer chain id src ph token_id tok amount dest orig_chain osrc data), [])
          | None => None
          end
    | _ => None
    end.

  Definition process_deploy (w : iworld) (c : ictx) (chain id src ph payload : bytes) : ires :=
    match dec_impl [PUint; PBytes32; PString; PString; PUint8; PBytes] payload with
    | Some [TUint _; TBytes32 token_id; TString name; TString symbol; TUint8 _; TBytes minter] =>
        if bytes_eqb (tm_addr (iw_its w) token_id) [] then
          if negb (cv_egld (ic_value c) =? 0) then None else
          if negb (gw_is_approved w c chain id src ph) then None else
          match deploy_tm w c token_id T_NATIVE None minter with
          | Some w1 => Some (w1, [])
          | None => None end
        else
          match gw_validate w c chain id src ph with
          | Some (w1, true, ev) =>
              match opt_addr minter with
              | Some m =>
                  match call_tm_deploy_token w1 c token_id m name symbol with
                  | Some w2 => Some (w2, ev)
                  | None => None end
              | None => None end
          | _ => None
          end
    | _ => None
    end.

  Definition process_link (w : iworld) (c : ictx) (payload : bytes) : option iworld :=
    match dec_impl [PUint; PBytes32; PUint8; PBytes; PBytes; PBytes] payload with
    | Some [TUint _; TBytes32 token_id; TUint8 ty; TBytes _; TBytes dtok; TBytes params] =>
        if 4 <? ty then None else
        if ty =? T_NATIVE then None else
        if negb (valid_esdt_id dtok) then None else
        deploy_tm w c token_id ty (Some dtok) params
    | _ => None
    end.

  Definition its_execute (w : iworld) (c : ictx) (chain id src payload : bytes) : ires :=
    let s := iw_its w in
    if negb (has_no_esdt (ic_value c)) then None else
    if i_paused s then None else
    if negb (is_trusted s chain src) then None else
    let ph := H payload in
    match route_in s chain payload with
    | None => None
    | Some (mt, orig, p) =>
        if mt =? MT_TRANSFER then
          if negb (cv_egld (ic_value c) =? 0) then None else process_transfer w c orig chain id src ph p
        else if mt =? MT_DEPLOY then process_deploy w c chain id src ph p
        else if mt =? MT_LINK then
          if negb (cv_egld (ic_value c) =? 0) then None else
          match gw_validate w c chain id src ph with
          | Some (w1, true, ev) => match process_link w1 c p with Some w2 => Some (w2, ev) | None => None end
          | _ => None
          end
        else None
    end.

  (* ---------- outbound transfers (user_functions.rs, remote.rs) ---------- *)
  Definition split_payment (v : callvalue) (gas : N) : option (bytes * N * bytes * N) :=
    match cv_esdt v with
    | [] => if gas <? cv_egld v then Some (EGLD, cv_egld v - gas, EGLD, gas) else None
    | [p] => if negb (ep_nonce p =? 0) then None else
             if gas <? ep_amount p then Some (ep_token p, ep_amount p - gas, ep_token p, gas) else None
    | [p; q] => if negb (ep_nonce p =? 0) || negb (ep_nonce q =? 0) then None else
                if negb (ep_amount q =? gas) then None else
                Some (ep_token p, ep_amount p, (if bytes_eqb (ep_token q) EGLD_ESDT then EGLD else ep_token q), gas)
    | _ => None
    end.

  Definition decode_metadata (raw : bytes) : option bytes :=
    match dec_u32 raw with
    | None => Some []                               (* undecodable metadata: version 0, no data *)
    | Some (ver, r) =>
        match (match r with [] => Some [] | _ => match dec_buf r with Some (d, _) => Some d | None => None end end) with
        | None => Some []
        | Some d => if ver =? 0 then Some d else None
        end
    end.

  Definition transmit (w : iworld) (c : ictx) (token_id dest_chain dest_addr : bytes) (amount : N) (gas_token : bytes) (gas : N) (data : bytes) : ires :=
    if bytes_eqb dest_addr [] then None else
    if amount =? 0 then None else
    match enc_impl [TUint MT_TRANSFER; TBytes32 token_id; TBytes (ic_caller c); TBytes dest_addr; TUint amount; TBytes data] with
    | Some payload => route_message w c dest_chain payload gas_token gas
    | None => None
    end.

  Definition interchain_transfer (w : iworld) (c : ictx) (token_id dest_chain dest_addr metadata : bytes) (gas : N) : ires :=
    if negb (Nat.eqb (length token_id) 32) then None else
    if i_paused (iw_its w) then None else
    match split_payment (ic_value c) gas with
    | None => None
    | Some (tok, amount, gtok, g) =>
        match call_tm_take w c token_id tok amount with
        | None => None
        | Some w1 =>
            match decode_metadata metadata with
            | None => None
            | Some data => transmit w1 c token_id dest_chain dest_addr amount gtok g data
            end
        end
    end.

  Definition call_contract_with_token (w : iworld) (c : ictx) (token_id dest_chain dest_addr data : bytes) (gas : N) : ires :=
    if negb (Nat.eqb (length token_id) 32) then None else
    if i_paused (iw_its w) then None else
    if bytes_eqb data [] then None else
    match split_payment (ic_value c) gas with
    | None => None
    | Some (tok, amount, gtok, g) =>
        match call_tm_take w c token_id tok amount with
        | None => None
        | Some w1 => transmit w1 c token_id dest_chain dest_addr amount gtok g data
        end
    end.

  (* ---------- registrations and deployments (factory.rs) ---------- *)
  (* deploy_interchain_token_raw: local branch (empty destination) or remote *)
  Definition remote_base (w : iworld) (c : ictx) (token_id name symbol : bytes) (decimals : N) (minter dest : bytes) (gas : N) : ires :=
    if bytes_eqb name [] || bytes_eqb symbol [] then None else
    if bytes_eqb (tm_addr (iw_its w) token_id) [] then None else
    match enc_impl [TUint MT_DEPLOY; TBytes32 token_id; TString name; TString symbol; TUint8 decimals; TBytes minter] with
    | Some payload => route_message w c dest payload EGLD gas
    | None => None
    end.

  Definition deploy_token_raw (w : iworld) (c : ictx) (deploy_salt dest name symbol : bytes) (decimals : N) (minter : bytes) (egld : N) : ires :=
    if i_paused (iw_its w) then None else
    let token_id := token_id_raw deploy_salt in
    if bytes_eqb dest [] then
      if bytes_eqb (tm_addr (iw_its w) token_id) [] then
        if negb (egld =? 0) then None else
        match deploy_tm w c token_id T_NATIVE None minter with Some w1 => Some (w1, []) | None => None end
      else
        match opt_addr minter with
        | Some m => match call_tm_deploy_token w c token_id m name symbol with Some w1 => Some (w1, []) | None => None end
        | None => None
        end
    else
      if bytes_eqb (i_chain (iw_its w)) dest then None else
      remote_base w c token_id name symbol decimals minter dest egld.

  Definition tm_token_of (w : iworld) (tma : bytes) : bytes := match get_tm w tma with Some t => tm_token t | None => [] end.

  (* sequence of role hand-over calls of the third step; each is a call into the manager by the service *)
  Definition tm_call (w : iworld) (c : ictx) (tma : bytes) (f : tm -> ledger -> tctx -> tres) : option iworld :=
    match get_tm w tma with
    | None => None
    | Some t => match f t (iw_led w) (tm_ctx c tma no_value) with
                | Some (t', l', _, _) => Some (w_led_ (w_tm w tma t') l')
                | None => None end
    end.

  Definition deploy_interchain_token_ep (w : iworld) (c : ictx) (salt name symbol : bytes) (decimals supply : N) (minter : bytes) : option (iworld * list bytes * list log) :=
    (* payable("EGLD"): an ESDT payment is refused by the framework before the body runs *)
    if negb (has_no_esdt (ic_value c)) || negb (Nat.eqb (length salt) 32) || negb (Nat.eqb (length minter) 32) || (255 <? decimals) then None else
    let s := iw_its w in
    if i_paused s then None else
    let deploy_salt := interchain_salt s (ic_caller c) salt in
    if bytes_eqb minter (ic_self c) then None else
    if (supply =? 0) && bytes_eqb minter zero32 then None else
    let minter_bytes := if 0 <? supply then ic_self c else minter in
    let token_id := token_id_raw deploy_salt in
    let tma := tm_addr s token_id in
    let egld := cv_egld (ic_value c) in
    if bytes_eqb tma [] || bytes_eqb (tm_token_of w tma) [] then
      let egld_t := if bytes_eqb tma [] then egld else egld in
      if bytes_eqb tma [] && negb (egld =? 0) then None else
      match deploy_token_raw w c deploy_salt [] name symbol decimals minter_bytes egld_t with
      | Some (w1, ev) => Some (w1, [token_id], ev)
      | None => None
      end
    else
      if negb (egld =? 0) then None else
      if 0 <? supply then
        match tm_call w c tma (fun t l x => tm_mint t l x (ic_caller c) supply) with
        | None => None
        | Some w1 =>
          match tm_call w1 c tma (fun t l x => transfer_mintership t l x minter) with
          | None => None
          | Some w2 =>
            match tm_call w2 c tma (fun t l x => remove_flow_limiter t l x (ic_self c)) with
            | None => None
            | Some w3 =>
              match tm_call w3 c tma (fun t l x => add_flow_limiter t l x minter) with
              | None => None
              | Some w4 =>
                match tm_call w4 c tma (fun t l x => transfer_operatorship t l x minter) with
                | None => None
                | Some w5 => Some (w5, [token_id], [])
                end
              end
            end
          end
        end
      else Some (w, [token_id], []).

  Definition is_minter_of (w : iworld) (tma a : bytes) : bool :=
    match get_tm w tma with Some t => intersects (roles_of t a) MINTER | None => false end.

  Definition check_token_minter (w : iworld) (c : ictx) (token_id minter : bytes) : bool :=
    let tma := tm_addr (iw_its w) token_id in
    negb (bytes_eqb tma []) && is_minter_of w tma minter && negb (bytes_eqb minter (ic_self c)).

  Definition approve_remote (w : iworld) (c : ictx) (deployer salt dest_chain dest_minter : bytes) : ires :=
    if negb (has_no_value (ic_value c)) || negb (Nat.eqb (length deployer) 32) || negb (Nat.eqb (length salt) 32) then None else
    let s := iw_its w in
    let token_id := interchain_token_id s deployer salt in
    if negb (check_token_minter w c token_id (ic_caller c)) then None else
    if bytes_eqb (trusted s dest_chain) [] then None else
    Some (w_its w (set_approval s (approval_key (ic_caller c) token_id dest_chain) (H dest_minter)), []).

  Definition revoke_remote (w : iworld) (c : ictx) (deployer salt dest_chain : bytes) : ires :=
    if negb (has_no_value (ic_value c)) || negb (Nat.eqb (length deployer) 32) || negb (Nat.eqb (length salt) 32) then None else
    let s := iw_its w in
    let token_id := interchain_token_id s deployer salt in
    Some (w_its w (set_approval s (approval_key (ic_caller c) token_id dest_chain) []), []).

  (* deploy_remote_interchain_token_raw *)
  Definition remote_raw (w : iworld) (c : ictx) (deploy_salt dest_chain dest_minter : bytes) : option (iworld * list bytes * list log) :=
    let s := iw_its w in
    if i_paused s then None else
    let token_id := token_id_raw deploy_salt in
    let tma := tm_addr s token_id in
    if bytes_eqb tma [] then None else
    let tok := tm_token_of w tma in
    let gas := cv_egld (ic_value c) in
    if bytes_eqb tok EGLD then
      match deploy_token_raw w c deploy_salt dest_chain EGLD EGLD 18 dest_minter gas with
      | Some (w1, ev) => Some (w1, [token_id], ev)
      | None => None
      end
    else
      if Nat.ltb (length tok) 7 then None else
      let symbol := firstn (length tok - 7) tok in
      (* call_and_exit: the endpoint never returns, so no return data *)
      Some (w_push w (PRemote deploy_salt dest_chain symbol dest_minter gas (ic_caller c) tok), [], []).

  Definition deploy_remote_with_minter (w : iworld) (c : ictx) (salt minter dest_chain : bytes) (dest_minter : option bytes) : option (iworld * list bytes * list log) :=
    if negb (has_no_esdt (ic_value c)) || negb (Nat.eqb (length salt) 32) || negb (Nat.eqb (length minter) 32) then None else
    let s := iw_its w in
    let deploy_salt := interchain_salt s (ic_caller c) salt in
    if negb (bytes_eqb minter zero32) then
      let token_id := token_id_raw deploy_salt in
      if negb (check_token_minter w c token_id minter) then None else
      match dest_minter with
      | Some dm =>
          let key := approval_key minter token_id dest_chain in
          let stored := bget (i_approvals s) key in
          if bytes_eqb stored [] || negb (bytes_eqb stored (H dm)) then None else
          remote_raw (w_its w (set_approval s key [])) c deploy_salt dest_chain dm
      | None => remote_raw w c deploy_salt dest_chain minter
      end
    else
      match dest_minter with
      | Some _ => None
      | None => remote_raw w c deploy_salt dest_chain []
      end.

  Definition register_custom_raw (w : iworld) (c : ictx) (deploy_salt token : bytes) (ty : N) (link_params : bytes) : option (iworld * list bytes * list log) :=
    if i_paused (iw_its w) then None else
    if ty =? T_NATIVE then None else
    let token_id := token_id_raw deploy_salt in
    match deploy_tm w c token_id ty (Some token) link_params with
    | Some w1 => Some (w1, [token_id], [])
    | None => None
    end.

  Definition register_canonical (w : iworld) (c : ictx) (token : bytes) : option (iworld * list bytes * list log) :=
    if negb (has_no_value (ic_value c)) then None else
    if negb (valid_token token) then None else
    register_custom_raw w c (canonical_salt (iw_its w) token) token T_LOCK_UNLOCK [].

  Definition deploy_remote_canonical (w : iworld) (c : ictx) (token dest_chain : bytes) : option (iworld * list bytes * list log) :=
    if negb (has_no_esdt (ic_value c)) then None else
    if negb (valid_token token) then None else
    remote_raw w c (canonical_salt (iw_its w) token) dest_chain [].

  Definition register_custom_token (w : iworld) (c : ictx) (salt token : bytes) (ty : N) (operator : bytes) : option (iworld * list bytes * list log) :=
    if negb (has_no_value (ic_value c)) || negb (Nat.eqb (length salt) 32) || negb (Nat.eqb (length operator) 32) || (4 <? ty) then None else
    if negb (valid_esdt_id token) then None else
    register_custom_raw w c (linked_salt (iw_its w) (ic_caller c) salt) token ty (if bytes_eqb operator zero32 then [] else operator).

  Definition link_token (w : iworld) (c : ictx) (salt dest_chain dest_token : bytes) (ty : N) (link_params : bytes) : option (iworld * list bytes * list log) :=
    if negb (has_no_esdt (ic_value c)) || negb (Nat.eqb (length salt) 32) || (4 <? ty) then None else
    let s := iw_its w in
    if i_paused s then None else
    if bytes_eqb dest_token [] then None else
    if ty =? T_NATIVE then None else
    if bytes_eqb dest_chain [] then None else
    if bytes_eqb dest_chain (i_chain s) then None else
    let token_id := token_id_raw (linked_salt s (ic_caller c) salt) in
    let tma := tm_addr s token_id in
    if bytes_eqb tma [] then None else
    let src_tok := tm_token_of w tma in
    match enc_impl [TUint MT_LINK; TBytes32 token_id; TUint8 ty; TBytes src_tok; TBytes dest_token; TBytes link_params] with
    | Some payload =>
        match route_message w c dest_chain payload EGLD (cv_egld (ic_value c)) with
        | Some (w1, ev) => Some (w1, [token_id], ev)
        | None => None end
    | None => None
    end.

  Definition register_token_metadata (w : iworld) (c : ictx) (token : bytes) : ires :=
    if negb (has_no_esdt (ic_value c)) then None else
    if negb (valid_esdt_id token) then None else
    Some (w_push w (PMetadata token (cv_egld (ic_value c)) (ic_caller c)), []).

  (* ---------- owner / operator endpoints ---------- *)
  Definition set_trusted_address (w : iworld) (c : ictx) (chain a : bytes) : ires :=
    if negb (has_no_value (ic_value c)) then None else
    if negb (bytes_eqb (ic_caller c) (ic_owner c)) then None else
    if bytes_eqb chain [] || bytes_eqb a [] then None else
    Some (w_its w (set_trusted (iw_its w) chain a), []).
  Definition remove_trusted_address (w : iworld) (c : ictx) (chain : bytes) : ires :=
    if negb (has_no_value (ic_value c)) then None else
    if negb (bytes_eqb (ic_caller c) (ic_owner c)) then None else
    if bytes_eqb chain [] then None else
    Some (w_its w (set_trusted (iw_its w) chain []), []).
  Definition pause_ep (w : iworld) (c : ictx) (b : bool) : ires :=
    if negb (has_no_value (ic_value c)) then None else
    if negb (bytes_eqb (ic_caller c) (ic_owner c)) then None else
    Some (w_its w (set_paused (iw_its w) b), []).

  Fixpoint set_limits (w : iworld) (c : ictx) (items : list (bytes * N)) : option iworld :=
    match items with
    | [] => Some w
    | (token_id, limit) :: r =>
        let tma := tm_addr (iw_its w) token_id in
        if bytes_eqb tma [] then None else
        match tm_call w c tma (fun t l x => set_flow_limit t l x limit) with
        | Some w1 => set_limits w1 c r
        | None => None
        end
    end.
  Definition set_flow_limits (w : iworld) (c : ictx) (ids : list bytes) (limits : list N) : ires :=
    if negb (has_no_value (ic_value c)) then None else
    if negb (intersects (iroles (iw_its w) (ic_caller c)) OPERATOR) then None else
    if negb (Nat.eqb (length ids) (length limits)) then None else
    if negb (forallb (fun i => Nat.eqb (length i) 32) ids) then None else
    match set_limits w c (combine ids limits) with Some w1 => Some (w1, []) | None => None end.

  Definition its_transfer_operatorship (w : iworld) (c : ictx) (a : bytes) : ires :=
    if negb (has_no_value (ic_value c)) || negb (Nat.eqb (length a) 32) then None else
    let s := iw_its w in
    if negb (intersects (iroles s (ic_caller c)) OPERATOR) then None else
    if negb (contains (iroles s (ic_caller c)) OPERATOR) then None else
    let s1 := set_iroles s (ic_caller c) (N.ldiff (iroles s (ic_caller c)) OPERATOR) in
    Some (w_its w (set_iroles s1 a (N.lor (iroles s1 a) OPERATOR)), []).

  (* proposeOperatorship / acceptOperatorship of the service itself (modules/operatable) *)
  Definition its_propose_operatorship (w : iworld) (c : ictx) (a : bytes) : ires :=
    if negb (has_no_value (ic_value c)) || negb (Nat.eqb (length a) 32) then None else
    let s := iw_its w in
    if negb (intersects (iroles s (ic_caller c)) OPERATOR) then None else
    if negb (contains (iroles s (ic_caller c)) OPERATOR) then None else
    Some (w_its w (set_iproposed s (ic_caller c) a OPERATOR), []).

  Definition its_accept_operatorship (w : iworld) (c : ictx) (from : bytes) : ires :=
    if negb (has_no_value (ic_value c)) || negb (Nat.eqb (length from) 32) then None else
    let s := iw_its w in
    let p := iproposed s from (ic_caller c) in
    if (p =? 0) || negb (p =? OPERATOR) then None else
    let s0 := set_iproposed s from (ic_caller c) 0 in
    if negb (contains (iroles s0 from) OPERATOR) then None else
    let s1 := set_iroles s0 from (N.ldiff (iroles s0 from) OPERATOR) in
    Some (w_its w (set_iroles s1 (ic_caller c) (N.lor (iroles s1 (ic_caller c)) OPERATOR)), []).

  (* ---------- asynchronous steps ---------- *)
  (* callback of a transfer-with-data promise *)
  Definition transfer_callback (w : iworld) (c : ictx) (chain id src ph token_id tok : bytes) (amount : N) (ok : bool) : ires :=
    let s := iw_its w in
    let w0 := w_its w (set_lock s chain id 0) in
    if ok then
      match gw_validate w0 c chain id src ph with
      | Some (w1, _, ev) => Some (w1, ev)
      | None => None
      end
    else
      match call_tm_take w0 c token_id tok amount with
      | Some w1 => Some (w1, [])
      | None => None
      end.

  (* ESDT properties lookup result: Some (name, type, decimals buffer) or None = error *)
  Definition props_decimals (dbuf : bytes) : option N :=
    if Nat.ltb (length dbuf) 12 then None else ascii_to_u8 0 (skipn 12 dbuf).

  Definition metadata_callback (w : iworld) (c : ictx) (tok : bytes) (gas : N) (caller : bytes) (res : option (bytes * bytes * bytes)) : ires :=
    let refund := if gas =? 0 then Some (w, []) else
                  match transfer (iw_led w) (ic_self c) caller EGLD gas with Some l' => Some (w_led_ w l', []) | None => None end in
    match res with
    | None => refund
    | Some (_, ty, dbuf) =>
        if negb (bytes_eqb ty FUNGIBLE) then refund else
        match props_decimals dbuf with
        | None => None
        | Some dec =>
            match enc_impl [TUint MT_REGISTER_METADATA; TBytes tok; TUint8 dec] with
            | Some payload => call_contract w {| ic_self := ic_self c; ic_caller := ic_caller c; ic_owner := ic_owner c; ic_now := ic_now c; ic_value := ic_value c; ic_newtm := [] |}
                                            HUB_CHAIN (trusted (iw_its w) HUB_CHAIN) payload EGLD gas
            | None => None
            end
        end
    end.

  Definition remote_callback (w : iworld) (c : ictx) (deploy_salt dest_chain symbol minter : bytes) (gas : N) (caller : bytes)
             (res : option (bytes * bytes * bytes)) : ires :=
    let refund := if gas =? 0 then Some (w, []) else
                  match transfer (iw_led w) (ic_self c) caller EGLD gas with Some l' => Some (w_led_ w l', []) | None => None end in
    match res with
    | None => refund
    | Some (name, ty, dbuf) =>
        if negb (bytes_eqb ty FUNGIBLE) then refund else
        match props_decimals dbuf with
        | None => None
        | Some dec => deploy_token_raw w c deploy_salt dest_chain name symbol dec minter gas
        end
    end.

  (* ---------- operations ---------- *)
  Inductive iop :=
  | IGateway (o : gop)
  | IExecute (c : ictx) (chain id src payload : bytes)
  | ITransfer (c : ictx) (token_id dest_chain dest_addr metadata : bytes) (gas : N)
  | ICallContract (c : ictx) (token_id dest_chain dest_addr data : bytes) (gas : N)
  | IRegisterMetadata (c : ictx) (token : bytes)
  | IDeployToken (c : ictx) (salt name symbol : bytes) (decimals supply : N) (minter : bytes)
  | IApproveRemote (c : ictx) (deployer salt dest_chain dest_minter : bytes)
  | IRevokeRemote (c : ictx) (deployer salt dest_chain : bytes)
  | IDeployRemote (c : ictx) (salt minter dest_chain : bytes) (dest_minter : option bytes)
  | IRegisterCanonical (c : ictx) (token : bytes)
  | IDeployRemoteCanonical (c : ictx) (token dest_chain : bytes)
  | IRegisterCustom (c : ictx) (salt token : bytes) (ty : N) (operator : bytes)
  | ILinkToken (c : ictx) (salt dest_chain dest_token : bytes) (ty : N) (params : bytes)
  | ISetFlowLimits (c : ictx) (ids : list bytes) (limits : list N)
  | ISetTrusted (c : ictx) (chain a : bytes)
  | IRemoveTrusted (c : ictx) (chain : bytes)
  | IPause (c : ictx) (b : bool)
  | ITransferOp (c : ictx) (a : bytes)
  | IProposeOp (c : ictx) (a : bytes)
  | IAcceptOp (c : ictx) (from : bytes)
  | ITm (tma : bytes) (o : top)                                       (* direct call of a user into a token manager *)
  | IDeliver (self : bytes) (id : N) (ok : bool)                       (* destination call of a transfer-with-data promise *)
  | ICallback (c : ictx) (id : N)                                      (* its callback *)
  | IProps (c : ictx) (id : N) (res : option (bytes * bytes * bytes))  (* system-contract lookup result + callback *)
  | IIssue (id : N) (res : option bytes).                              (* issuance result + manager callback *)

  Record iout := { io_ok : bool; io_rets : list bytes; io_logs : list log }.
  Definition ifail : iout := {| io_ok := false; io_rets := []; io_logs := [] |}.

  Fixpoint find_ip (id : N) (ps : list ipend) : option ipend :=
    match ps with [] => None | p :: r => if ip_id p =? id then Some p else find_ip id r end.
  Fixpoint remove_ip (id : N) (ps : list ipend) : list ipend :=
    match ps with [] => [] | p :: r => if ip_id p =? id then remove_ip id r else p :: remove_ip id r end.
  Fixpoint replace_ip (q : ipend) (ps : list ipend) : list ipend :=
    match ps with [] => [] | p :: r => if ip_id p =? ip_id q then q :: r else p :: replace_ip q r end.
  Definition w_pend_ (w : iworld) (ps : list ipend) := wset w (iw_gw w) (iw_its w) (iw_tms w) (iw_led w) ps (iw_next w).

  Definition itx (w : iworld) (c : ictx) (f : iworld -> option (iworld * list bytes * list log)) : iworld * iout :=
    match pay_in (iw_led w) (ic_caller c) (ic_self c) (ic_value c) with
    | None => (w, ifail)
    | Some l1 =>
        match f (w_led_ w l1) with
        | Some (w', rets, ev) => (w', {| io_ok := true; io_rets := rets; io_logs := ev |})
        | None => (w, ifail)
        end
    end.
  Definition norets (r : ires) : option (iworld * list bytes * list log) :=
    match r with Some (w, ev) => Some (w, [], ev) | None => None end.

  Variable verify : bytes -> bytes -> bytes -> bool.

  Definition istep (w : iworld) (o : iop) : iworld * iout :=
    match o with
    | IGateway go =>
        let '(g', r) := gstep H verify (iw_gw w) go in
        (w_gw_ w g', {| io_ok := r_ok r; io_rets := r_rets r; io_logs := gw_logs (iw_its w) (r_events r) |})
    | IExecute c chain id src payload => itx w c (fun w1 => norets (its_execute w1 c chain id src payload))
    | ITransfer c t dc da md g => itx w c (fun w1 => norets (interchain_transfer w1 c t dc da md g))
    | ICallContract c t dc da d g => itx w c (fun w1 => norets (call_contract_with_token w1 c t dc da d g))
    | IRegisterMetadata c t => itx w c (fun w1 => norets (register_token_metadata w1 c t))
    | IDeployToken c salt n sy d sup m => itx w c (fun w1 => deploy_interchain_token_ep w1 c salt n sy d sup m)
    | IApproveRemote c d s dc dm => itx w c (fun w1 => norets (approve_remote w1 c d s dc dm))
    | IRevokeRemote c d s dc => itx w c (fun w1 => norets (revoke_remote w1 c d s dc))
    | IDeployRemote c s m dc dm => itx w c (fun w1 => deploy_remote_with_minter w1 c s m dc dm)
    | IRegisterCanonical c t => itx w c (fun w1 => register_canonical w1 c t)
    | IDeployRemoteCanonical c t dc => itx w c (fun w1 => deploy_remote_canonical w1 c t dc)
    | IRegisterCustom c s t ty op => itx w c (fun w1 => register_custom_token w1 c s t ty op)
    | ILinkToken c s dc dt ty p => itx w c (fun w1 => link_token w1 c s dc dt ty p)
    | ISetFlowLimits c ids ls => itx w c (fun w1 => norets (set_flow_limits w1 c ids ls))
    | ISetTrusted c ch a => itx w c (fun w1 => norets (set_trusted_address w1 c ch a))
    | IRemoveTrusted c ch => itx w c (fun w1 => norets (remove_trusted_address w1 c ch))
    | IPause c b => itx w c (fun w1 => norets (pause_ep w1 c b))
    | ITransferOp c a => itx w c (fun w1 => norets (its_transfer_operatorship w1 c a))
    | IProposeOp c a => itx w c (fun w1 => norets (its_propose_operatorship w1 c a))
    | IAcceptOp c from => itx w c (fun w1 => norets (its_accept_operatorship w1 c from))
    | ITm tma o =>
        match get_tm w tma with
        | Some t =>
            match o with
            | TIssueCallback _ _ => (w, ifail)
            | TDeployToken _ _ _ _ =>
              (* the manager's minter may retry a failed issuance itself: the issuance becomes pending work *)
              let '(t', l', out) := tstep t (iw_led w) o in
              let w1 := w_led_ (w_tm w tma t') l' in
              ((if to_ok out then w_push w1 (PIssue tma) else w1), {| io_ok := to_ok out; io_rets := to_rets out; io_logs := [] |})
            | _ =>
              let '(t', l', out) := tstep t (iw_led w) o in
              (w_led_ (w_tm w tma t') l', {| io_ok := to_ok out; io_rets := to_rets out; io_logs := [] |})
            end
        | None => (w, ifail)
        end
    | IDeliver self id ok =>
        match find_ip id (iw_pend w) with
        | Some p =>
            match ip_kind p, ip_stage p with
            | PTransfer chain mid src ph token_id tok amount dest oc os data, IAwaitCall =>
                match (if ok then transfer (iw_led w) self dest tok amount else Some (iw_led w)) with
                | Some l' => (w_pend_ (w_led_ w l') (replace_ip {| ip_id := id; ip_kind := ip_kind p; ip_stage := IAwaitCallback ok |} (iw_pend w)),
                              {| io_ok := true; io_rets := []; io_logs := [] |})
                | None => (w, ifail)
                end
            | _, _ => (w, ifail)
            end
        | None => (w, ifail)
        end
    | ICallback c id =>
        match find_ip id (iw_pend w) with
        | Some p =>
            match ip_kind p, ip_stage p with
            | PTransfer chain mid src ph token_id tok amount dest oc os data, IAwaitCallback ok =>
                (* the promise is consumed whatever the callback does; a failing callback changes nothing else *)
                let w0 := w_pend_ w (remove_ip id (iw_pend w)) in
                match transfer_callback w0 c chain mid src ph token_id tok amount ok with
                | Some (w1, ev) => (w1, {| io_ok := true; io_rets := []; io_logs := ev |})
                | None => (w0, ifail)
                end
            | _, _ => (w, ifail)
            end
        | None => (w, ifail)
        end
    | IProps c id res =>
        match find_ip id (iw_pend w) with
        | Some p =>
            let w0 := w_pend_ w (remove_ip id (iw_pend w)) in
            match ip_kind p with
            | PMetadata tok gas caller =>
                match metadata_callback w0 c tok gas caller res with
                | Some (w1, ev) => (w1, {| io_ok := true; io_rets := []; io_logs := ev |})
                | None => (w0, ifail)
                end
            | PRemote ds dc sym m gas caller _ =>
                match remote_callback w0 c ds dc sym m gas caller res with
                | Some (w1, ev) => (w1, {| io_ok := true; io_rets := []; io_logs := ev |})
                | None => (w0, ifail)
                end
            | _ => (w, ifail)
            end
        | None => (w, ifail)
        end
    | IIssue id res =>
        match find_ip id (iw_pend w) with
        | Some p =>
            match ip_kind p with
            | PIssue tma =>
                match get_tm w tma with
                | Some t =>
                    let '(t', l', out) := tstep t (iw_led w) (TIssueCallback tma res) in
                    (w_pend_ (w_led_ (w_tm w tma t') l') (remove_ip id (iw_pend w)), {| io_ok := to_ok out; io_rets := []; io_logs := [] |})
                | None => (w, ifail)
                end
            | _ => (w, ifail)
            end
        | None => (w, ifail)
        end
    end.

  Definition irun (w : iworld) (ops : list iop) : iworld := fold_left (fun s o => fst (istep s o)) ops w.

  (* ---------- storage rendering of the service ---------- *)
  Definition its_render (s : its) : list (bytes * bytes) :=
    nzk (str "gateway") (i_gateway s) ++ nzk (str "gas_service") (i_gas s) ++ nzk (str "token_manager") (i_tm_impl s)
    ++ nzk (str "chain_name") (i_chain s) ++ nzk (str "chain_name_hash") (i_chain_hash s)
    ++ (if i_paused s then [(str "pause_module:paused", [x01])] else [])
    ++ flat_map (fun '(c, a) => nzk (str "trusted_address" ++ enc_buf c) a) (i_trusted s)
    ++ flat_map (fun '(i, a) => nzk (str "token_manager_address" ++ i) a) (i_tms s)
    ++ flat_map (fun '((c, i), v) => nzk (str "transfer_with_data_lock" ++ enc_buf c ++ enc_buf i) (be_min v)) (i_locks s)
    ++ flat_map (fun '(k, v) => nzk (str "approved_destination_minters" ++ k) v) (i_approvals s)
    ++ flat_map (fun '(a, r) => nzk (str "account_roles" ++ a) (be_min r)) (i_roles s)
    ++ flat_map (fun '((f, t), r) => nzk (str "proposed_roles" ++ f ++ t) (be_min r)) (i_proposed s).
End WithHash.
