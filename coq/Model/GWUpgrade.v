(* The gateway's upgrade path.  `init` stores its settings and then calls `upgrade(operator, signers)`; an upgrade transaction
   (which the protocol accepts from the contract's owner only) runs that second half again on the EXISTING state: a non-zero
   operator argument replaces the operator, and every signer set of the argument list is registered through `rotate_signers_raw`
   with the rotation delay NOT enforced and with no proof -- the same validity and "never registered before" checks as any
   rotation.  Messages, retention, domain separator and minimum delay are not touched.  Kept apart from Model/Gateway.v: the seven
   endpoint operations (`gop`) and the theorems by case analysis over them are untouched (the ITS and governance worlds embed
   exactly those); the gateway checker and the theorems about histories with upgrades use the sum type `gop + gupg`. *)
From Coq Require Import String Ascii.
From Coq Require Import List Arith NArith Lia Bool.
From Coq Require Import Init.Byte Strings.Byte.
From Ax Require Import Lib.Bytes Lib.Mvx Lib.Keccak Model.Check Model.Gateway Model.GatewayCheck.
Import ListNotations.
Open Scope N_scope.

Inductive gupg :=
| GUpgrade (c : ctx) (operator : bytes) (signers_raw : list bytes).

Fixpoint decode_sets (l : list bytes) : option (list wsigners) :=
  match l with
  | [] => Some []
  | b :: r => match dec_wsigners_top b, decode_sets r with
              | Some w, Some ws => Some (w :: ws) | _, _ => None end
  end.

Section WithCrypto.
  Variable H : bytes -> bytes.
  Variable verify : bytes -> bytes -> bytes -> bool.

  Definition gw_upgrade (g : gw) (now : N) (operator : bytes) (signers_raw : list bytes) : option (gw * list event) :=
    if negb (Nat.eqb (length operator) 32) then None else
    let '(g1, ev1) := if bytes_eqb operator zero_addr then (g, []) else (set_operator g operator, [ev_operatorship operator]) in
    match decode_sets signers_raw with
    | Some ws => match rotate_all H g1 now ws with
                 | Some (g2, ev2) => Some (g2, ev1 ++ ev2)
                 | None => None end
    | None => None
    end.

  Definition ugstep (g : gw) (o : gop + gupg) : gw * gres :=
    match o with
    | inl o' => gstep H verify g o'
    | inr (GUpgrade c operator signers_raw) =>
        match gw_upgrade g (c_now c) operator signers_raw with
        | Some (g', ev) => (g', {| r_ok := true; r_rets := []; r_events := ev |})
        | None => (g, fail)
        end
    end.

  Definition ugrun (g : gw) (ops : list (gop + gupg)) : gw := fold_left (fun s o => fst (ugstep s o)) ops g.
End WithCrypto.

(* correspondence checker over histories with upgrades *)
Section Run.
  Variable tab : list (bytes * bytes * bytes).

  Fixpoint ucheck_steps (g : gw) (steps : list ((gop + gupg) * expect)) : list N :=
    match steps with
    | [] => []
    | (o, x) :: r =>
        let '(g', res) := ugstep Hk (vf tab) g o in
        compare g g' res x :: ucheck_steps g' r
    end.

  Definition ucheck_trace (now retention : N) (domain : bytes) (min_delay : N) (operator : bytes)
             (signers_raw : list bytes) (xinit : expect) (steps : list ((gop + gupg) * expect)) : list N :=
    match gw_init Hk now retention domain min_delay operator signers_raw with
    | Some (g, ev) =>
        compare empty_gw g {| r_ok := true; r_rets := []; r_events := ev |} xinit :: ucheck_steps g steps
    | None =>
        [if x_ok xinit then 1 else 0]
    end.
End Run.
