(* The token manager's upgrade path: `upgrade` takes the constructor's arguments and calls `init` again.  On an existing manager
   every `set_if_empty` write finds its slot occupied (service, token id; the token identifier only if one was recorded), so
   what remains of it is the argument validation and the two role grants of `init` -- with ONE exception found by the correspondence:
   the implementation type of a NATIVE manager is the enum value 0, whose stored form is the empty buffer, so `set_if_empty` takes that
   slot for empty and an upgrade REPLACES the type of a native manager by its argument (every other type is kept).  Kept apart from Model/TokenManager.v: the sixteen
   endpoint operations (`top`) and the theorems by case analysis over them are untouched; the checker and the theorems about
   histories with upgrades use the sum type `top + tupg`. *)
From Coq Require Import String List Arith NArith Lia Bool.
From Ax Require Import Lib.Bytes Lib.Mvx Model.Check Model.Env Model.TokenManager.
Import ListNotations.
Open Scope N_scope.

Definition with_type (t : tm) (ty : N) : tm :=
  {| tm_service := tm_service t; tm_type := ty; tm_tid := tm_tid t; tm_token := tm_token t; tm_roles := tm_roles t;
     tm_proposed := tm_proposed t; tm_limit := tm_limit t; tm_in := tm_in t; tm_out := tm_out t; tm_pending := tm_pending t |}.

Inductive tupg :=
| TUpgrade (self service : bytes) (ty : N) (tid : bytes) (operator token : option bytes).

Definition tm_upgrade (t : tm) (self service : bytes) (ty : N) (tid : bytes) (operator token : option bytes) : option (tm * list log) :=
  if bytes_eqb service zero32 || negb (Nat.eqb (length service) 32) || negb (Nat.eqb (length tid) 32) || (4 <? ty) then None else
  let op := match operator with Some a => a | None => zero32 end in
  let t := if tm_type t =? T_NATIVE then with_type t ty else t in      (* set_if_empty on a slot whose value 0 is stored as the empty buffer *)
  let '(t1, e1) := add_role self t op (N.lor FLOW_LIMITER OPERATOR) in
  let '(t2, e2) := add_role self t1 service (N.lor FLOW_LIMITER OPERATOR) in
  (* the argument checks of init are made on the ARGUMENTS, whatever is stored *)
  let ok := if ty =? T_NATIVE then match token with None => true | Some _ => false end
            else if (ty =? T_LOCK_UNLOCK) || (ty =? T_LOCK_UNLOCK_FEE) then match token with Some _ => true | None => false end
            else match token with Some tk => negb (bytes_eqb tk EGLD) | None => false end in
  if ok then Some (match token with
                   | Some tk => if bytes_eqb (tm_token t2) [] then with_token t2 tk else t2     (* set_if_empty *)
                   | None => t2 end, e1 ++ e2)
  else None.

Definition ustep (t : tm) (l : ledger) (o : top + tupg) : tm * ledger * tout :=
  match o with
  | inl o' => tstep t l o'
  | inr (TUpgrade self service ty tid operator token) =>
      match tm_upgrade t self service ty tid operator token with
      | Some (t', e) => (t', l, {| to_ok := true; to_rets := []; to_logs := e |})
      | None => (t, l, {| to_ok := false; to_rets := []; to_logs := [] |})
      end
  end.

Definition urun (t : tm) (l : ledger) (ops : list (top + tupg)) : tm * ledger :=
  fold_left (fun s o => let '(t', l', _) := ustep (fst s) (snd s) o in (t', l')) ops (t, l).
