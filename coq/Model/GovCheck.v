(* Correspondence checker for governance-world traces. *)
From Coq Require Import String Ascii.
From Coq Require Import List Arith NArith Lia Bool.
From Coq Require Import Init.Byte Strings.Byte.
From Ax Require Import Lib.Bytes Lib.Mvx Lib.Keccak Model.Check Model.Env Model.Gateway Model.GatewayCheck Model.Governance.
Import ListNotations.
Open Scope N_scope.

Record vexpect := { vx_ok : bool; vx_rets : list bytes; vx_logs : list log; vx_sd_gov : list kv; vx_sd_gw : list kv; vx_bd : list (bytes * bytes * N) }.

(* error events carry VM-specific codes and messages: compare name and hash only *)
Definition vcompare (tracked : list bytes) (pre post : gworld) (o : vout) (x : vexpect) : N :=
  (if bool_eqb (vo_ok o) (vx_ok x) then 0 else 1)
  + (if list_eqb bytes_eqb (vo_rets o) (vx_rets x) then 0 else 2)
  + (if list_eqb log_eqb (vo_logs o) (vx_logs x) then 0 else 4)
  + (if sdiff_ok (gov_render (w_gov pre)) (gov_render (w_gov post)) (vx_sd_gov x)
        && sdiff_ok (render (w_gw pre)) (render (w_gw post)) (vx_sd_gw x) then 0 else 8)
  + (if bdiff_ok tracked (w_led pre) (w_led post) (vx_bd x) then 0 else 16).

Section Run.
  Variable tab : list (bytes * bytes * bytes).
  Variable fx : bool.

  Fixpoint vcheck_steps (tracked : list bytes) (w : gworld) (steps : list (vop * vexpect)) : list N :=
    match steps with
    | [] => []
    | (o, x) :: r =>
        let '(w', out) := vstep keccak256 (verify_tab tab) fx w o in
        vcompare tracked w w' out x :: vcheck_steps tracked w' r
    end.

  Definition vcheck_trace (tracked : list bytes) (l0 : ledger)
             (gwnow retention : N) (domain : bytes) (gwdelay : N) (gwop : bytes) (signers_raw : list bytes)
             (gateway chain gaddr : bytes) (min_delay : N) (operator : bytes)
             (steps : list (vop * vexpect)) : list N :=
    match gw_init keccak256 gwnow retention domain gwdelay gwop signers_raw with
    | Some (g, _) =>
        let gv := {| gv_gateway := gateway; gv_chain := chain; gv_address := gaddr; gv_min_delay := min_delay; gv_operator := operator;
                     gv_eta := []; gv_tl_flight := []; gv_approvals := []; gv_op_flight := []; gv_refunds := [] |} in
        0 :: vcheck_steps tracked {| w_gw := g; w_gov := gv; w_led := l0; w_pend := []; w_next := 0 |} steps
    | None => [1]
    end.
End Run.
