(* The five ITS message types of abi_types.rs as token shapes, the struct-level
   encode/decode (field order, reverse popping, TokenManagerType::from) and the
   checkers used by the correspondence for C06/C07. *)
From Coq Require Import String Ascii.
From Coq Require Import List Arith NArith Lia Bool.
From Coq Require Import Init.Byte Strings.Byte.
From Ax Require Import Lib.Bytes Lib.SolAbi.
Import ListNotations.
Open Scope N_scope.

Inductive pkind := KTransfer | KDeploy | KHub | KMeta | KLink | KRaw (shape : list ptype).

(* Solidity tuples:
   transfer : (uint256 messageType, bytes32 tokenId, bytes sourceAddress, bytes destinationAddress, uint256 amount, bytes data)
   deploy   : (uint256 messageType, bytes32 tokenId, string name, string symbol, uint8 decimals, bytes minter)
   hub      : (uint256 messageType, string destinationChain, bytes payload)
   meta     : (uint256 messageType, bytes tokenAddress, uint8 decimals)
   link     : (uint256 messageType, bytes32 tokenId, uint256/uint8 tokenManagerType, bytes sourceToken, bytes destinationToken, bytes params) *)
Definition ptypes (k : pkind) : list ptype :=
  match k with
  | KTransfer => [PUint; PBytes32; PBytes; PBytes; PUint; PBytes]
  | KDeploy => [PUint; PBytes32; PString; PString; PUint8; PBytes]
  | KHub => [PUint; PString; PBytes]
  | KMeta => [PUint; PBytes; PUint8]
  | KLink => [PUint; PBytes32; PUint8; PBytes; PBytes; PBytes]
  | KRaw s => s
  end.

Definition ptype_eqb (a b : ptype) : bool :=
  match a, b with PUint, PUint | PBytes32, PBytes32 | PBytes, PBytes | PString, PString | PUint8, PUint8 => true | _, _ => false end.

Fixpoint ptypes_eqb (a b : list ptype) : bool :=
  match a, b with [], [] => true | x :: a', y :: b' => ptype_eqb x y && ptypes_eqb a' b' | _, _ => false end.

(* TokenManagerType::from(u8) panics above 4 *)
Definition link_type_ok (toks : list token) : bool :=
  match toks with
  | _ :: _ :: TUint8 n :: _ => n <=? 4
  | _ => false
  end.

Definition struct_post (k : pkind) (toks : list token) : bool :=
  match k with KLink => link_type_ok toks | _ => true end.

Definition enc_struct (k : pkind) (toks : list token) : option bytes :=
  if ptypes_eqb (map type_of toks) (ptypes k) then enc_impl toks else None.

Definition dec_struct (k : pkind) (data : bytes) : option (list token) :=
  match dec_impl (ptypes k) data with
  | Some toks => if struct_post k toks then Some toks else None
  | None => None
  end.

(* specification-level versions (the property monitors) *)
Definition enc_struct_spec (k : pkind) (toks : list token) : option bytes :=
  if ptypes_eqb (map type_of toks) (ptypes k) then enc_spec toks else None.

Definition dec_struct_spec (k : pkind) (data : bytes) : option (list token) :=
  match dec_spec (ptypes k) data with
  | Some toks => if struct_post k toks then Some toks else None
  | None => None
  end.

(* ---- comparison helpers for the correspondence ---- *)
Fixpoint tokens_eqb (a b : list token) : bool :=
  match a, b with [], [] => true | x :: a', y :: b' => token_eqb x y && tokens_eqb a' b' | _, _ => false end.

Definition opt_bytes_eqb (a b : option bytes) : bool :=
  match a, b with Some x, Some y => bytes_eqb x y | None, None => true | _, _ => false end.

Definition opt_tokens_eqb (a b : option (list token)) : bool :=
  match a, b with Some x, Some y => tokens_eqb x y | None, None => true | _, _ => false end.

(* result code: 0 = agree; bit 0 = model differs from implementation;
   bit 1 = implementation output differs from the ABI specification *)
Definition check_enc (k : pkind) (toks : list token) (impl_out : option bytes) : N :=
  (if opt_bytes_eqb (enc_struct k toks) impl_out then 0 else 1) +
  (if opt_bytes_eqb (enc_struct_spec k toks) impl_out then 0 else 2).

Definition check_dec (k : pkind) (data : bytes) (impl_out : option (list token)) : N :=
  (if opt_tokens_eqb (dec_struct k data) impl_out then 0 else 1) +
  (if opt_tokens_eqb (dec_struct_spec k data) impl_out then 0 else 2).

(* round-trip monitor on implementation outputs: decoding (by the spec) what the
   implementation encoded gives the value back *)
Definition check_roundtrip (k : pkind) (toks : list token) (impl_out : option bytes) : N :=
  match impl_out with
  | Some out => if opt_tokens_eqb (dec_struct_spec k out) (Some toks) then 0 else 2
  | None => 0
  end.
