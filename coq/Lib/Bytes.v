(* Byte strings, big-endian integers, checked slices, hex I/O.
   Stdlib only.  All definitions are total and computable. *)
From Coq Require Import String Ascii.
From Coq Require Import List Arith NArith Lia Bool.
From Coq Require Import Init.Byte Strings.Byte.
Import ListNotations.
Open Scope N_scope.

Arguments N.add : simpl never.
Arguments N.sub : simpl never.
Arguments N.mul : simpl never.
Arguments N.div : simpl never.
Arguments N.modulo : simpl never.
Arguments N.pow : simpl never.
Arguments N.eqb : simpl never.
Arguments N.ltb : simpl never.
Arguments N.leb : simpl never.

Definition bytes := list byte.

Definition Nlen {A} (l : list A) : N := N.of_nat (length l).

Definition byte_of_N (n : N) : byte :=
  match Byte.of_N (n mod 256) with Some b => b | None => x00 end.

Lemma to_N_byte_of_N n : Byte.to_N (byte_of_N n) = n mod 256.
Proof.
  unfold byte_of_N.
  destruct (Byte.of_N (n mod 256)) eqn:E.
  - apply Byte.to_of_N in E. exact E.
  - exfalso. pose proof (N.mod_upper_bound n 256 ltac:(lia)) as Hlt.
    apply Byte.of_N_None_iff in E. lia.
Qed.

Lemma byte_of_to_N b : byte_of_N (Byte.to_N b) = b.
Proof.
  unfold byte_of_N.
  pose proof (Byte.to_N_bounded b).
  rewrite N.mod_small by lia. rewrite Byte.of_to_N. reflexivity.
Qed.

Lemma to_N_inj a b : Byte.to_N a = Byte.to_N b -> a = b.
Proof. intro H. rewrite <- (byte_of_to_N a), <- (byte_of_to_N b), H. reflexivity. Qed.

(* ---------- equality ---------- *)

Fixpoint bytes_eqb (a b : bytes) : bool :=
  match a, b with
  | [], [] => true
  | x :: a', y :: b' => Byte.eqb x y && bytes_eqb a' b'
  | _, _ => false
  end.

Lemma bytes_eqb_eq a b : bytes_eqb a b = true <-> a = b.
Proof.
  revert b; induction a as [|x a IH]; intros [|y b]; cbn [bytes_eqb]; split; intro H;
    try reflexivity; try discriminate.
  - apply andb_true_iff in H as [H1 H2]. apply Byte.byte_dec_bl in H1. apply IH in H2. congruence.
  - inversion H; subst. apply andb_true_iff; split; [apply Byte.byte_dec_lb; reflexivity | apply IH; reflexivity].
Qed.

Lemma bytes_eqb_refl a : bytes_eqb a a = true.
Proof. apply bytes_eqb_eq; reflexivity. Qed.

Lemma bytes_eqb_neq a b : bytes_eqb a b = false <-> a <> b.
Proof.
  split; intro H.
  - intro E. apply bytes_eqb_eq in E. congruence.
  - destruct (bytes_eqb a b) eqn:E; [apply bytes_eqb_eq in E; contradiction | reflexivity].
Qed.

Definition bytes_dec (a b : bytes) : {a = b} + {a <> b}.
Proof. destruct (bytes_eqb a b) eqn:E; [left; apply bytes_eqb_eq; exact E | right; apply bytes_eqb_neq; exact E]. Defined.

(* ---------- big-endian ---------- *)

Fixpoint be_enc (w : nat) (n : N) : bytes :=
  match w with
  | O => []
  | S k => be_enc k (n / 256) ++ [byte_of_N n]
  end.

Fixpoint be_dec_acc (acc : N) (l : bytes) : N :=
  match l with
  | [] => acc
  | b :: r => be_dec_acc (acc * 256 + Byte.to_N b) r
  end.
Definition be_dec := be_dec_acc 0.

Lemma be_dec_acc_app a l1 l2 : be_dec_acc a (l1 ++ l2) = be_dec_acc (be_dec_acc a l1) l2.
Proof. revert a; induction l1 as [|b l IH]; intros a; cbn [app be_dec_acc]; auto. Qed.

Lemma be_enc_length w n : length (be_enc w n) = w.
Proof. revert n; induction w as [|k IH]; intros n; cbn [be_enc]; auto.
  rewrite app_length, IH. cbn. lia. Qed.

Lemma be_dec_enc w : forall n, n < 256 ^ N.of_nat w -> be_dec (be_enc w n) = n.
Proof.
  unfold be_dec.
  induction w as [|k IH]; intros n Hn.
  - cbn in *. lia.
  - cbn [be_enc]. rewrite be_dec_acc_app. cbn [be_dec_acc].
    rewrite to_N_byte_of_N.
    rewrite IH.
    + pose proof (N.div_mod n 256 ltac:(lia)). lia.
    + rewrite Nat2N.inj_succ, N.pow_succ_r' in Hn.
      apply N.div_lt_upper_bound; lia.
Qed.

Lemma be_enc_dec : forall l, be_enc (length l) (be_dec l) = l.
Proof.
  induction l as [|b l IH] using rev_ind; [reflexivity|].
  unfold be_dec in *. rewrite app_length, be_dec_acc_app. cbn [length be_dec_acc].
  replace (length l + 1)%nat with (S (length l)) by lia.
  cbn [be_enc].
  pose proof (Byte.to_N_bounded b) as Hb.
  replace ((be_dec_acc 0 l * 256 + to_N b) / 256) with (be_dec_acc 0 l).
  2:{ symmetry. rewrite N.div_add_l by lia. rewrite N.div_small by lia. lia. }
  rewrite IH. f_equal. f_equal.
  unfold byte_of_N. rewrite N.add_comm, N.mod_add by lia.
  rewrite N.mod_small by lia. rewrite Byte.of_to_N. reflexivity.
Qed.

Lemma be_dec_acc_bound l : forall a, be_dec_acc a l < (a + 1) * 256 ^ N.of_nat (length l).
Proof.
  induction l as [|b l IH]; intros a; cbn [be_dec_acc length].
  - cbn. lia.
  - specialize (IH (a * 256 + to_N b)). pose proof (Byte.to_N_bounded b).
    rewrite Nat2N.inj_succ, N.pow_succ_r'.
    eapply N.lt_le_trans; [exact IH|].
    replace ((a + 1) * (256 * 256 ^ N.of_nat (length l))) with (((a+1) * 256) * 256 ^ N.of_nat (length l)) by lia.
    apply N.mul_le_mono_r. lia.
Qed.

Lemma be_dec_bound l : be_dec l < 256 ^ N.of_nat (length l).
Proof. unfold be_dec. pose proof (be_dec_acc_bound l 0). lia. Qed.

Lemma be_dec_inj a b : length a = length b -> be_dec a = be_dec b -> a = b.
Proof. intros HL HE. rewrite <- (be_enc_dec a), <- (be_enc_dec b), HL, HE. reflexivity. Qed.

(* zeros *)
Definition zeros (n : nat) : bytes := repeat x00 n.

Lemma zeros_length n : length (zeros n) = n.
Proof. apply repeat_length. Qed.

Lemma be_dec_acc_zeros n a : be_dec_acc a (zeros n) = a * 256 ^ N.of_nat n.
Proof.
  revert a; induction n as [|n IH]; intros a; cbn [zeros repeat be_dec_acc].
  - cbn. lia.
  - fold (zeros n). rewrite IH. rewrite Nat2N.inj_succ, N.pow_succ_r'. cbn. lia.
Qed.

Lemma be_enc_zero w : be_enc w 0 = zeros w.
Proof.
  induction w as [|w IH]; [reflexivity|]. cbn [be_enc].
  replace (0 / 256) with 0 by reflexivity. rewrite IH.
  change (byte_of_N 0) with x00. unfold zeros.
  replace (S w) with (w + 1)%nat by lia. rewrite repeat_app. reflexivity.
Qed.

Lemma be_enc_split w1 w2 n :
  be_enc (w1 + w2) n = be_enc w1 (n / 256 ^ N.of_nat w2) ++ be_enc w2 n.
Proof.
  revert n; induction w2 as [|w2 IH]; intros n.
  - rewrite Nat.add_0_r. cbn [be_enc]. rewrite app_nil_r. cbn. rewrite N.div_1_r. reflexivity.
  - replace (w1 + S w2)%nat with (S (w1 + w2)) by lia. cbn [be_enc].
    rewrite IH, app_assoc. f_equal. f_equal.
    rewrite Nat2N.inj_succ, N.pow_succ_r', N.div_div by lia. reflexivity.
Qed.

Lemma be_enc_small_prefix w1 w2 n :
  n < 256 ^ N.of_nat w2 -> be_enc (w1 + w2) n = zeros w1 ++ be_enc w2 n.
Proof.
  intro H. rewrite be_enc_split, N.div_small by exact H. rewrite be_enc_zero. reflexivity.
Qed.

Fixpoint all_zero (l : bytes) : bool :=
  match l with [] => true | b :: r => Byte.eqb b x00 && all_zero r end.

Lemma all_zero_spec l : all_zero l = true <-> l = zeros (length l).
Proof.
  induction l as [|b l IH]; cbn [all_zero length zeros repeat]; [tauto|].
  rewrite andb_true_iff, IH. split.
  - intros [H1 H2]. apply Byte.byte_dec_bl in H1. subst. f_equal. exact H2.
  - intro H. inversion H as [[H1 H2]]. split; [reflexivity|]. rewrite <- H2. exact H2.
Qed.

Lemma all_zero_zeros n : all_zero (zeros n) = true.
Proof. apply all_zero_spec. rewrite zeros_length. reflexivity. Qed.

Lemma all_zero_be_dec l : all_zero l = true -> be_dec l = 0.
Proof.
  intro H. apply all_zero_spec in H. rewrite H. unfold be_dec. rewrite be_dec_acc_zeros. lia.
Qed.

Lemma be_dec_zero_all l : be_dec l = 0 -> all_zero l = true.
Proof.
  intro H. apply all_zero_spec. rewrite <- (be_enc_dec l) at 1. rewrite H. apply be_enc_zero.
Qed.

Lemma be_dec_app a b : be_dec (a ++ b) = be_dec a * 256 ^ N.of_nat (length b) + be_dec b.
Proof.
  unfold be_dec. rewrite be_dec_acc_app.
  generalize (be_dec_acc 0 a) as x. intro x.
  revert x. induction b as [|c b IH]; intros x; cbn [be_dec_acc length].
  - cbn. lia.
  - rewrite IH. rewrite (IH (0 * 256 + to_N c)). rewrite Nat2N.inj_succ, N.pow_succ_r'. lia.
Qed.

(* minimal-length big-endian (BigUint::to_bytes_be; zero is the empty string) *)
Definition byte_len (n : N) : nat := N.to_nat ((N.size n + 7) / 8).
Definition be_min (n : N) : bytes := be_enc (byte_len n) n.

Lemma size_pow_bound n : n < 2 ^ N.size n.
Proof.
  destruct n as [|p]; [cbn; lia|].
  pose proof (N.size_gt (N.pos p)) as H. exact H.
Qed.

Lemma byte_len_bound n : n < 256 ^ N.of_nat (byte_len n).
Proof.
  unfold byte_len. rewrite N2Nat.id.
  eapply N.lt_le_trans; [apply size_pow_bound|].
  replace 256 with (2 ^ 8) by reflexivity. rewrite <- N.pow_mul_r.
  apply N.pow_le_mono_r; [lia|].
  pose proof (N.div_mod (N.size n + 7) 8 ltac:(lia)).
  pose proof (N.mod_upper_bound (N.size n + 7) 8 ltac:(lia)). lia.
Qed.

Lemma be_dec_min n : be_dec (be_min n) = n.
Proof. unfold be_min. apply be_dec_enc. apply byte_len_bound. Qed.

Lemma be_min_length n : length (be_min n) = byte_len n.
Proof. apply be_enc_length. Qed.

(* ---------- checked slices (managed buffer load_slice / copy_slice) ---------- *)

Definition slice (data : bytes) (off len : N) : option bytes :=
  if off + len <=? Nlen data
  then Some (firstn (N.to_nat len) (skipn (N.to_nat off) data))
  else None.

Lemma slice_length data off len r : slice data off len = Some r -> Nlen r = len.
Proof.
  unfold slice, Nlen. destruct (N.leb_spec (off + len) (N.of_nat (length data))); [|discriminate].
  intro E; inversion E; subst. rewrite firstn_length, skipn_length. lia.
Qed.

Lemma slice_app_mid a b c : slice (a ++ b ++ c) (Nlen a) (Nlen b) = Some b.
Proof.
  unfold slice, Nlen. rewrite !app_length.
  destruct (N.leb_spec (N.of_nat (length a) + N.of_nat (length b))
             (N.of_nat (length a + (length b + length c)))); [|lia].
  rewrite !Nat2N.id. rewrite skipn_app, skipn_all, Nat.sub_diag. cbn [skipn app].
  rewrite firstn_app, firstn_all, Nat.sub_diag. cbn [firstn]. rewrite app_nil_r. reflexivity.
Qed.

Lemma slice_app_mid' a b c off len :
  off = Nlen a -> len = Nlen b -> slice (a ++ b ++ c) off len = Some b.
Proof. intros -> ->. apply slice_app_mid. Qed.

Lemma slice_in_bounds data off len r :
  slice data off len = Some r -> off + len <= Nlen data.
Proof. unfold slice. destruct (N.leb_spec (off + len) (Nlen data)); [auto|discriminate]. Qed.

(* ---------- hex I/O (for the correspondence files) ---------- *)

Definition hexdigit (a : ascii) : option N :=
  let n := N_of_ascii a in
  if (48 <=? n) && (n <=? 57) then Some (n - 48)
  else if (97 <=? n) && (n <=? 102) then Some (n - 87)
  else if (65 <=? n) && (n <=? 70) then Some (n - 55)
  else None.

Fixpoint unhex (s : string) : bytes :=
  match s with
  | String a (String b r) =>
      match hexdigit a, hexdigit b with
      | Some x, Some y => byte_of_N (16 * x + y) :: unhex r
      | _, _ => []
      end
  | _ => []
  end.

Definition hexchar (n : N) : ascii :=
  if n <? 10 then ascii_of_N (48 + n) else ascii_of_N (87 + n).

Fixpoint hex (l : bytes) : string :=
  match l with
  | [] => EmptyString
  | b :: r => String (hexchar (Byte.to_N b / 16)) (String (hexchar (Byte.to_N b mod 16)) (hex r))
  end.

Definition bytes_of_string (s : string) : bytes := list_byte_of_string s.

Notation "'hx' s" := (unhex s%string) (at level 9, only parsing).
Notation "'str' s" := (bytes_of_string s%string) (at level 9, only parsing).
