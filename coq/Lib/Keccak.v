(* Executable keccak-256 (Keccak-f[1600], rate 136, pad 0x01..0x80), lanes as N.
   Used only to run the model against the implementation; theorems are stated
   over an abstract hash function. *)
From Coq Require Import String Ascii.
From Coq Require Import List Arith NArith Lia Bool.
From Coq Require Import Init.Byte Strings.Byte.
From Ax Require Import Lib.Bytes.
Import ListNotations.
Open Scope N_scope.

Definition mask64 : N := 18446744073709551615.
Definition rotl64 (x : N) (n : N) : N :=
  N.land (N.lor (N.shiftl x n) (N.shiftr x (64 - n))) mask64.

Definition RC : list N :=
 [0x0000000000000001; 0x0000000000008082; 0x800000000000808A; 0x8000000080008000;
  0x000000000000808B; 0x0000000080000001; 0x8000000080008081; 0x8000000000008009;
  0x000000000000008A; 0x0000000000000088; 0x0000000080008009; 0x000000008000000A;
  0x000000008000808B; 0x800000000000008B; 0x8000000000008089; 0x8000000000008003;
  0x8000000000008002; 0x8000000000000080; 0x000000000000800A; 0x800000008000000A;
  0x8000000080008081; 0x8000000000008080; 0x0000000080000001; 0x8000000080008008].

Definition ROT : list N :=
 [ 0;  1; 62; 28; 27;
  36; 44;  6; 55; 20;
   3; 10; 43; 25; 39;
  41; 45; 15; 21;  8;
  18;  2; 61; 56; 14].

Definition nthN (l : list N) (i : nat) : N := nth i l 0.
Definition idx (x y : nat) : nat := ((x mod 5) + 5 * (y mod 5))%nat.

Definition kround (A : list N) (rc : N) : list N :=
  let C := map (fun x => N.lxor (nthN A (idx x 0)) (N.lxor (nthN A (idx x 1)) (N.lxor (nthN A (idx x 2)) (N.lxor (nthN A (idx x 3)) (nthN A (idx x 4)))))) (seq 0 5) in
  let D := map (fun x => N.lxor (nthN C ((x + 4) mod 5)) (rotl64 (nthN C ((x + 1) mod 5)) 1)) (seq 0 5) in
  let A1 := map (fun i => N.lxor (nthN A i) (nthN D (i mod 5))) (seq 0 25) in
  let B := map (fun j =>
     let x' := (j mod 5)%nat in let y' := (j / 5)%nat in
     let y := x' in let x := (((y' + 5*3 - 3 * y mod 5) mod 5 + 5 - 0) * 3 mod 5)%nat in
     rotl64 (nthN A1 (idx x y)) (nthN ROT (idx x y))) (seq 0 25) in
  let A2 := map (fun i => let x := (i mod 5)%nat in let y := (i / 5)%nat in
     N.lxor (nthN B i) (N.land (N.lxor (nthN B (idx (x+1) y)) mask64) (nthN B (idx (x+2) y)))) (seq 0 25) in
  match A2 with
  | a0 :: rest => N.lxor a0 rc :: rest
  | [] => []
  end.

Definition keccak_f (A : list N) : list N := fold_left kround RC A.

Fixpoint le_bytes_to_N (l : list N) : N :=
  match l with [] => 0 | b :: r => b + 256 * le_bytes_to_N r end.

Fixpoint chunks (n : nat) (fuel : nat) (l : list N) : list (list N) :=
  match fuel with O => [] | S f =>
    match l with [] => [] | _ => firstn n l :: chunks n f (skipn n l) end end.

Definition rate := 136%nat.

Definition kpad (msg : list N) : list N :=
  let q := (rate - (length msg mod rate))%nat in
  if Nat.eqb q 1 then msg ++ [0x81]
  else msg ++ [0x01] ++ repeat 0 (q - 2) ++ [0x80].

Definition absorb (A : list N) (block : list N) : list N :=
  let lanes := map le_bytes_to_N (chunks 8 17 block) in
  let A' := map (fun i => if Nat.ltb i 17 then N.lxor (nthN A i) (nthN lanes i) else nthN A i) (seq 0 25) in
  keccak_f A'.

Fixpoint lane_bytes (n : nat) (x : N) : list N :=
  match n with O => [] | S k => (x mod 256) :: lane_bytes k (x / 256) end.

Definition keccak256_N (msg : list N) : list N :=
  let p := kpad msg in
  let blocks := chunks rate (S (length p / rate)) p in
  let A := fold_left absorb blocks (repeat 0 25) in
  firstn 32 (flat_map (lane_bytes 8) (firstn 4 A)).

Definition keccak256 (m : bytes) : bytes :=
  map byte_of_N (keccak256_N (map Byte.to_N m)).

(* test vectors *)
Example keccak_empty : hex (keccak256 []) = "c5d2460186f7233c927e7db2dcc703c0e500b653ca82273b7bfad8045d85a470"%string.
Proof. vm_compute. reflexivity. Qed.
Example keccak_abc : hex (keccak256 (str "abc")) = "4e03657aea45a94fc7d47ba826c8d667c0d1e6e33a64a036ec44f58fa12d6c45"%string.
Proof. vm_compute. reflexivity. Qed.
(* 200 bytes: two blocks *)
Example keccak_200a : hex (keccak256 (repeat x61 200)) = "96ea54061def936c4be90b518992fdc6f12f535068a256229aca54267b4d084d"%string.
Proof. vm_compute. reflexivity. Qed.
