(* MultiversX binary codec (multiversx-sc-codec 0.19): the nested ("dep") and
   top encodings used by the contracts, and association-list storage helpers. *)
From Coq Require Import String Ascii.
From Coq Require Import List Arith NArith Lia Bool.
From Coq Require Import Init.Byte Strings.Byte.
From Ax Require Import Lib.Bytes.
Import ListNotations.
Open Scope N_scope.

(* ---------- nested encoding ---------- *)
Definition enc_u32 (n : N) : bytes := be_enc 4 n.
Definition enc_u64 (n : N) : bytes := be_enc 8 n.
Definition enc_buf (b : bytes) : bytes := enc_u32 (Nlen b) ++ b.      (* ManagedBuffer / TokenIdentifier *)
Definition enc_big (n : N) : bytes := enc_buf (be_min n).               (* BigUint: minimal bytes *)

(* ---------- nested decoding: each returns the value and the remaining input ---------- *)
Definition take (n : nat) (b : bytes) : option (bytes * bytes) :=
  if Nat.leb n (length b) then Some (firstn n b, skipn n b) else None.

Definition dec_u8 (b : bytes) : option (N * bytes) :=
  match b with x :: r => Some (Byte.to_N x, r) | [] => None end.

Definition dec_u32 (b : bytes) : option (N * bytes) :=
  match take 4 b with Some (x, r) => Some (be_dec x, r) | None => None end.

Definition dec_u64 (b : bytes) : option (N * bytes) :=
  match take 8 b with Some (x, r) => Some (be_dec x, r) | None => None end.

Definition dec_buf (b : bytes) : option (bytes * bytes) :=
  match dec_u32 b with
  | Some (n, r) => if n <=? Nlen r then take (N.to_nat n) r else None
  | None => None
  end.

Definition dec_big (b : bytes) : option (N * bytes) :=
  match dec_buf b with Some (x, r) => Some (be_dec x, r) | None => None end.

Definition dec_fixed (n : nat) (b : bytes) : option (bytes * bytes) := take n b.

(* ManagedVec<T> nested: u32 count then the items.  Fuel = bytes available
   (every item consumes at least one byte). *)
Section Vec.
  Context {A : Type}.
  Variable item : bytes -> option (A * bytes).
  Fixpoint dec_items (fuel : nat) (count : N) (b : bytes) : option (list A * bytes) :=
    if count =? 0 then Some ([], b) else
    match fuel with
    | O => None
    | S f =>
        match item b with
        | Some (x, r) =>
            match dec_items f (count - 1) r with
            | Some (xs, r') => Some (x :: xs, r')
            | None => None
            end
        | None => None
        end
    end.
  Definition dec_vec (b : bytes) : option (list A * bytes) :=
    match dec_u32 b with
    | Some (n, r) => dec_items (length r) n r
    | None => None
    end.
  (* top-level ManagedVec<T>: items until the input is depleted *)
  Fixpoint dec_all (fuel : nat) (b : bytes) : option (list A) :=
    match b with
    | [] => Some []
    | _ =>
        match fuel with
        | O => None
        | S f =>
            match item b with
            | Some (x, r) =>
                match dec_all f r with Some xs => Some (x :: xs) | None => None end
            | None => None
            end
        end
    end.
End Vec.

(* top-encoded numbers: minimal big-endian; decoding accepts up to 8 bytes for u64 *)
Definition top_u64 (b : bytes) : option N := if Nat.leb (length b) 8 then Some (be_dec b) else None.

(* ---------- association lists ---------- *)
Section AList.
  Context {K V : Type}.
  Variable keqb : K -> K -> bool.
  Fixpoint alookup (k : K) (l : list (K * V)) : option V :=
    match l with
    | [] => None
    | (k', v) :: r => if keqb k k' then Some v else alookup k r
    end.
  Fixpoint aremove (k : K) (l : list (K * V)) : list (K * V) :=
    match l with
    | [] => []
    | (k', v) :: r => if keqb k k' then aremove k r else (k', v) :: aremove k r
    end.
  Definition aset (k : K) (v : V) (l : list (K * V)) : list (K * V) := (k, v) :: aremove k l.
End AList.

Definition pair_eqb (a b : bytes * bytes) : bool := bytes_eqb (fst a) (fst b) && bytes_eqb (snd a) (snd b).
