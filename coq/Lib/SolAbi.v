(* Solidity ABI codec of interchain-token-service/src/abi.rs.
   enc_impl / dec_impl mirror the Rust control flow (raw_abi_encode, head_append,
   tail_append, fixed_bytes_append, pad_biguint, pad_u32; ParamType::abi_decode,
   peek_32_bytes, take_usize, take_u8, take_bytes, raw_abi_decode).
   enc_spec / dec_spec are written from the Solidity ABI specification
   (head/tail encoding of a tuple of uint256 / bytes32 / bytes / string / uint8).
   Definitions only; proofs are in Proofs/SolAbiProofs.v. *)
From Coq Require Import String Ascii.
From Coq Require Import List Arith NArith Lia Bool.
From Coq Require Import Init.Byte Strings.Byte.
From Ax Require Import Lib.Bytes.
Import ListNotations.
Open Scope N_scope.

Inductive token :=
| TUint (n : N)            (* Token::Uint256(BigUint) *)
| TBytes32 (b : bytes)     (* Token::Bytes32(ManagedByteArray<32>) *)
| TBytes (b : bytes)       (* Token::Bytes *)
| TString (b : bytes)      (* Token::String *)
| TUint8 (n : N).          (* Token::Uint8(u8) *)

Inductive ptype := PUint | PBytes32 | PBytes | PString | PUint8.

Definition type_of (t : token) : ptype :=
  match t with TUint _ => PUint | TBytes32 _ => PBytes32 | TBytes _ => PBytes
             | TString _ => PString | TUint8 _ => PUint8 end.

(* values the Rust types can hold *)
Definition wf_token (t : token) : Prop :=
  match t with
  | TUint _ => True
  | TBytes32 b => length b = 32%nat
  | TBytes b | TString b => Nlen b < 2 ^ 32
  | TUint8 n => n < 256
  end.

Definition wf_tokenb (t : token) : bool :=
  match t with
  | TUint _ => true
  | TBytes32 b => Nat.eqb (length b) 32
  | TBytes b | TString b => Nlen b <? 2 ^ 32
  | TUint8 n => n <? 256
  end.

Definition token_eqb (a b : token) : bool :=
  match a, b with
  | TUint x, TUint y => x =? y
  | TBytes32 x, TBytes32 y => bytes_eqb x y
  | TBytes x, TBytes y => bytes_eqb x y
  | TString x, TString y => bytes_eqb x y
  | TUint8 x, TUint8 y => x =? y
  | _, _ => false
  end.

(* ------------------------------------------------------------------ *)
(* Encoder as implemented                                               *)

(* pad_u32: 28 zero bytes then the 4 big-endian bytes of a u32 *)
Definition pad_u32 (v : N) : bytes := zeros 28 ++ be_enc 4 (v mod 2 ^ 32).

(* pad_biguint: panics ("Unsupported number size") above 32 bytes *)
Definition pad_biguint (v : N) : option bytes :=
  let b := be_min v in
  if Nat.leb (length b) 32 then Some (zeros (32 - length b) ++ b) else None.

(* fixed_bytes_append: 32-byte batches, the last one right-padded with zeros.
   fuel = number of bytes (each batch consumes at least one). *)
Fixpoint fixed_bytes_append_f (fuel : nat) (d : bytes) : bytes :=
  match fuel with
  | O => []
  | S f =>
      match d with
      | [] => []
      | _ =>
          let batch := firstn 32 d in
          let rest := skipn 32 d in
          match rest with
          | [] => (* last batch: to_copy = len%32 or 32 *)
              if Nat.eqb (length batch mod 32) 0 then batch
              else batch ++ zeros (32 - length batch mod 32)
          | _ => batch ++ fixed_bytes_append_f f rest
          end
      end
  end.
Definition fixed_bytes_append (d : bytes) : bytes := fixed_bytes_append_f (length d) d.

(* pad_bytes_len * 32 *)
Definition tail_len (t : token) : N :=
  match t with
  | TBytes d | TString d => ((Nlen d + 31) / 32 + 1) * 32
  | _ => 0
  end.

Definition head_append (t : token) (suffix_offset : N) : option bytes :=
  match t with
  | TUint v => pad_biguint v
  | TBytes32 d => Some (fixed_bytes_append d)
  | TBytes _ | TString _ => Some (pad_u32 suffix_offset)
  | TUint8 v => Some (pad_u32 v)
  end.

Definition tail_append (t : token) : bytes :=
  match t with
  | TBytes d | TString d => pad_u32 (Nlen d) ++ fixed_bytes_append d
  | _ => []
  end.

Fixpoint heads_impl (toks : list token) (offset : N) : option bytes :=
  match toks with
  | [] => Some []
  | t :: r =>
      match head_append t offset, heads_impl r (offset + tail_len t) with
      | Some h, Some hs => Some (h ++ hs)
      | _, _ => None
      end
  end.

Definition enc_impl (toks : list token) : option bytes :=
  match heads_impl toks (32 * Nlen toks) with
  | Some hs => Some (hs ++ concat (map tail_append toks))
  | None => None
  end.

(* ------------------------------------------------------------------ *)
(* Encoder per the ABI specification                                    *)

Definition word (n : N) : bytes := be_enc 32 n.      (* enc(uint256 n), n < 2^256 *)

Definition pad_right32 (d : bytes) : bytes :=
  d ++ zeros ((32 - length d mod 32) mod 32).

Definition is_dynamic (t : token) : bool :=
  match t with TBytes _ | TString _ => true | _ => false end.

Definition spec_tail (t : token) : bytes :=
  match t with
  | TBytes d | TString d => word (Nlen d) ++ pad_right32 d
  | _ => []
  end.

Definition spec_static_head (t : token) : bytes :=
  match t with
  | TUint v => word v
  | TBytes32 d => d
  | TUint8 v => word v
  | _ => []
  end.

(* head of the i-th component: its value, or the offset of its tail measured
   from the start of the encoding = total head size + size of earlier tails *)
Fixpoint spec_heads (k : N) (earlier_tails : N) (toks : list token) : bytes :=
  match toks with
  | [] => []
  | t :: r =>
      (if is_dynamic t then word (32 * k + earlier_tails) else spec_static_head t)
        ++ spec_heads k (earlier_tails + Nlen (spec_tail t)) r
  end.

Definition fits256 (t : token) : bool :=
  match t with TUint v => v <? 2 ^ 256 | _ => true end.

Definition enc_spec (toks : list token) : option bytes :=
  if forallb fits256 toks
  then Some (spec_heads (Nlen toks) 0 toks ++ concat (map spec_tail toks))
  else None.

(* total encoded size per the specification *)
Definition spec_size (toks : list token) : N :=
  32 * Nlen toks + Nlen (concat (map spec_tail toks)).

(* ------------------------------------------------------------------ *)
(* Decoder as implemented                                               *)

Definition peek32 (data : bytes) (off : N) : option bytes := slice data off 32.

Definition take_usize (w : bytes) : option N :=
  if all_zero (firstn 28 w) then Some (be_dec (skipn 28 w)) else None.

Definition take_u8 (w : bytes) : option N :=
  if all_zero (firstn 31 w) then Some (be_dec (skipn 31 w)) else None.

Definition dec_dynamic (data : bytes) (off : N) : option bytes :=
  match peek32 data off with
  | None => None
  | Some w1 =>
      match take_usize w1 with
      | None => None
      | Some dyn =>
          match peek32 data dyn with
          | None => None
          | Some w2 =>
              match take_usize w2 with
              | None => None
              | Some len => slice data (dyn + 32) len
              end
          end
      end
  end.

Definition dec_param (ty : ptype) (data : bytes) (off : N) : option token :=
  match ty with
  | PUint => option_map (fun w => TUint (be_dec w)) (peek32 data off)
  | PBytes32 => option_map TBytes32 (peek32 data off)
  | PBytes => option_map TBytes (dec_dynamic data off)
  | PString => option_map TString (dec_dynamic data off)
  | PUint8 => match peek32 data off with
              | None => None
              | Some w => option_map TUint8 (take_u8 w)
              end
  end.

Fixpoint dec_from (tys : list ptype) (data : bytes) (off : N) : option (list token) :=
  match tys with
  | [] => Some []
  | ty :: r =>
      match dec_param ty data off with
      | None => None
      | Some t =>
          match dec_from r data (off + 32) with
          | None => None
          | Some ts => Some (t :: ts)
          end
      end
  end.

Definition dec_impl (tys : list ptype) (data : bytes) : option (list token) :=
  dec_from tys data 0.

(* ------------------------------------------------------------------ *)
(* Decoder per the ABI layout: component i is word i; a dynamic component's
   word is the offset o of its tail, whose first word is the length.  All
   ranges must lie inside the buffer; offsets and lengths must fit 32 bits;
   uint8 words must be below 256. *)

Definition spec_word (data : bytes) (i : N) : option bytes := slice data (32 * i) 32.

Definition spec_dynamic (data : bytes) (i : N) : option bytes :=
  match spec_word data i with
  | None => None
  | Some w =>
      let o := be_dec w in
      if o <? 2 ^ 32 then
        match slice data o 32 with
        | None => None
        | Some lw =>
            let len := be_dec lw in
            if len <? 2 ^ 32 then slice data (o + 32) len else None
        end
      else None
  end.

Definition spec_field (ty : ptype) (data : bytes) (i : N) : option token :=
  match ty with
  | PUint => option_map (fun w => TUint (be_dec w)) (spec_word data i)
  | PBytes32 => option_map TBytes32 (spec_word data i)
  | PBytes => option_map TBytes (spec_dynamic data i)
  | PString => option_map TString (spec_dynamic data i)
  | PUint8 => match spec_word data i with
              | None => None
              | Some w => if be_dec w <? 256 then Some (TUint8 (be_dec w)) else None
              end
  end.

Fixpoint spec_fields (tys : list ptype) (data : bytes) (i : N) : option (list token) :=
  match tys with
  | [] => Some []
  | ty :: r =>
      match spec_field ty data i, spec_fields r data (i + 1) with
      | Some t, Some ts => Some (t :: ts)
      | _, _ => None
      end
  end.

Definition dec_spec (tys : list ptype) (data : bytes) : option (list token) :=
  spec_fields tys data 0.
